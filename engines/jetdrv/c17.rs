// C17 — terminal table navigation: explicit-state BFS through the real
// `update()` of jet1090 (DESIGN.md 4/C17).
//
// A state is the part of `Jet1090` that `update()` reads or writes:
// (rows, selected, should_quit, is_search_mode, sort_key, sort_asc,
// search_query, width). Every transition builds a fresh real `Jet1090` from the
// state, locks it in a real tokio mutex, calls the real handler inside
// catch_unwind and reads the state back.

use super::common::*;
use crate::tui::Event;
use crate::{Jet1090, SortKey};
use crossterm::event::{KeyCode, KeyEvent, KeyModifiers};
use ratatui::widgets::{ScrollbarState, TableState};
use serde_json::{json, Value};
use std::collections::{BTreeMap, BTreeSet, VecDeque};

#[derive(Clone, PartialEq, Eq, PartialOrd, Ord, Debug)]
pub struct St {
    pub n: usize,
    pub sel: Option<usize>,
    pub quit: bool,
    pub search: bool,
    pub sort: u8,
    pub asc: bool,
    pub query: String,
    pub width: u16,
}

impl St {
    pub fn to_json(&self) -> Value {
        json!({"rows": self.n, "selected": self.sel, "should_quit": self.quit, "is_search_mode": self.search,
               "sort_key": self.sort, "sort_asc": self.asc, "search_query": self.query, "width": self.width})
    }
    pub fn from_json(v: &Value) -> St {
        St {
            n: v["rows"].as_u64().unwrap_or(0) as usize,
            sel: v["selected"].as_u64().map(|x| x as usize),
            quit: v["should_quit"].as_bool().unwrap_or(false),
            search: v["is_search_mode"].as_bool().unwrap_or(false),
            sort: v["sort_key"].as_u64().unwrap_or(3) as u8,
            asc: v["sort_asc"].as_bool().unwrap_or(false),
            query: v["search_query"].as_str().unwrap_or("").to_string(),
            width: v["width"].as_u64().unwrap_or(0) as u16,
        }
    }
}

pub fn sort_of(i: u8) -> SortKey {
    match i {
        0 => SortKey::CALLSIGN,
        1 => SortKey::ALTITUDE,
        2 => SortKey::VRATE,
        3 => SortKey::COUNT,
        4 => SortKey::FIRST,
        _ => SortKey::LAST,
    }
}
pub fn sort_ix(k: &SortKey) -> u8 {
    match k {
        SortKey::CALLSIGN => 0,
        SortKey::ALTITUDE => 1,
        SortKey::VRATE => 2,
        SortKey::COUNT => 3,
        SortKey::FIRST => 4,
        SortKey::LAST => 5,
    }
}

pub fn build(s: &St) -> Jet1090 {
    Jet1090 {
        items: (0..s.n).map(|i| format!("{:06x}", 0x400000 + i)).collect(),
        state: TableState::default().with_selected(s.sel),
        scroll_state: ScrollbarState::new(s.n),
        should_quit: s.quit,
        should_clear: false,
        sort_key: sort_of(s.sort),
        sort_asc: s.asc,
        width: s.width,
        is_search_mode: s.search,
        search_query: s.query.clone(),
        ..Default::default()
    }
}

pub fn read_back(j: &Jet1090) -> St {
    St {
        n: j.items.len(),
        sel: j.state.selected(),
        quit: j.should_quit,
        search: j.is_search_mode,
        sort: sort_ix(&j.sort_key),
        asc: j.sort_asc,
        query: j.search_query.clone(),
        width: j.width,
    }
}

/// The event alphabet: the keys named by the property plus undocumented keys,
/// ticks of three widths and the error event.
pub fn alphabet() -> Vec<(String, Event)> {
    let mut v = Vec::new();
    for c in ['j', 'k', 'g', 'q', 'a', 'c', 'v', '.', 'f', 'l', '-', '/', 'x', '1', 'J', ' '] {
        v.push((format!("Char({c})"), Event::Key(KeyEvent::new(KeyCode::Char(c), KeyModifiers::NONE))));
    }
    for (n, k) in [
        ("Esc", KeyCode::Esc),
        ("Enter", KeyCode::Enter),
        ("Backspace", KeyCode::Backspace),
        ("Up", KeyCode::Up),
        ("Down", KeyCode::Down),
        ("Home", KeyCode::Home),
        ("PageUp", KeyCode::PageUp),
        ("PageDown", KeyCode::PageDown),
        ("End", KeyCode::End),
        ("Left", KeyCode::Left),
        ("Right", KeyCode::Right),
        ("Tab", KeyCode::Tab),
        ("Delete", KeyCode::Delete),
        ("F1", KeyCode::F(1)),
        ("Null", KeyCode::Null),
    ] {
        v.push((n.to_string(), Event::Key(KeyEvent::new(k, KeyModifiers::NONE))));
    }
    // the same characters with a modifier held (terminals in raw mode deliver Ctrl+c etc. as key events)
    for c in ['j', 'k', 'g', 'q', 'a', 'c', 'v', '.', 'f', 'l', '-', '/', 'x', 'd', 'z'] {
        v.push((format!("Ctrl-{c}"), Event::Key(KeyEvent::new(KeyCode::Char(c), KeyModifiers::CONTROL))));
        v.push((format!("Alt-{c}"), Event::Key(KeyEvent::new(KeyCode::Char(c), KeyModifiers::ALT))));
    }
    for (n, k) in [("Ctrl-Esc", KeyCode::Esc), ("Ctrl-Enter", KeyCode::Enter), ("Shift-Up", KeyCode::Up), ("Alt-Home", KeyCode::Home)] {
        v.push((n.to_string(), Event::Key(KeyEvent::new(k, if n.starts_with("Ctrl") { KeyModifiers::CONTROL } else if n.starts_with("Alt") { KeyModifiers::ALT } else { KeyModifiers::SHIFT }))));
    }
    // key release and auto-repeat reports (terminals with the keyboard-enhancement protocol send them)
    for c in ['q', 'j', '/', 'a', '-', 'x'] {
        v.push((format!("Release-{c}"), Event::Key(KeyEvent::new_with_kind(KeyCode::Char(c), KeyModifiers::NONE, crossterm::event::KeyEventKind::Release))));
        v.push((format!("Repeat-{c}"), Event::Key(KeyEvent::new_with_kind(KeyCode::Char(c), KeyModifiers::NONE, crossterm::event::KeyEventKind::Repeat))));
    }
    for (n, k) in [("Release-Esc", KeyCode::Esc), ("Release-Enter", KeyCode::Enter), ("Repeat-Backspace", KeyCode::Backspace), ("Repeat-Down", KeyCode::Down)] {
        v.push((n.to_string(), Event::Key(KeyEvent::new_with_kind(k, KeyModifiers::NONE, if n.starts_with("Release") { crossterm::event::KeyEventKind::Release } else { crossterm::event::KeyEventKind::Repeat }))));
    }
    for w in [0u16, 80, 131, u16::MAX] {
        v.push((format!("Tick({w})"), Event::Tick(w)));
    }
    v.push(("Error".to_string(), Event::Error));
    v
}

pub fn event_by_name(name: &str) -> Option<Event> {
    alphabet().into_iter().find(|(n, _)| n == name).map(|(_, e)| e)
}

/// Apply one event through the real handler. Err(panic message) on panic.
pub fn step(s: &St, ev: Event) -> Result<St, String> {
    let m = tokio::sync::Mutex::new(build(s));
    let mut g = m.try_lock().expect("fresh mutex");
    let r = guarded(|| {
        let _ = crate::update(&mut g, ev);
    });
    r.map(|_| read_back(&g))
}

/// search_query is canonicalised to its length class (0, 1, >=2): the handler
/// pushes to / pops from / clears it and never branches on its content.
pub fn canon(mut s: St) -> St {
    let l = s.query.chars().count().min(2);
    s.query = "x".repeat(l);
    s
}

/// the key code behind an event name: the handler dispatches on the code alone, so a documented key pressed with
/// a modifier is still that key (Ctrl-q is q), and is judged as such
fn base_name(name: &str) -> String {
    for p in ["Ctrl-", "Alt-", "Shift-", "Release-", "Repeat-"] {
        if let Some(rest) = name.strip_prefix(p) {
            return if rest.chars().count() == 1 { format!("Char({rest})") } else { rest.to_string() };
        }
    }
    name.to_string()
}

fn is_char(name: &str, c: char) -> bool {
    base_name(name) == format!("Char({c})")
}

/// The invariants of the property on one transition. Returns (class, text).
pub fn judge(s: &St, name: &str, r: &Result<St, String>) -> Option<(String, String)> {
    let t = match r {
        Err(p) => {
            return Some((
                format!("panic:{}:{}", if s.n == 0 { "empty" } else { "rows" }, panic_class(p)),
                format!("update() panicked on {name} with {} rows, selected={:?}: {p}", s.n, s.sel),
            ))
        }
        Ok(t) => t,
    };
    if t.n != s.n {
        return Some(("rows-changed".into(), format!("update() changed the number of rows on {name}")));
    }
    match t.sel {
        None => {
            if s.sel.is_some() {
                return Some(("selection-lost".into(), format!("selection became None on {name} from {:?} ({} rows)", s.sel, s.n)));
            }
        }
        Some(i) => {
            let ok = if s.n == 0 { i == 0 } else { i < s.n };
            if !ok {
                return Some((
                    format!("selection-out-of-range:{}", if s.n == 0 { "empty" } else { "rows" }),
                    format!("after {name} the selected index is {i} with {} rows (was {:?})", s.n, s.sel),
                ));
            }
        }
    }
    let base = base_name(name);
    if t.quit != s.quit && !(!s.search && (is_char(name, 'q') || base == "Esc")) {
        return Some(("quit-flag".into(), format!("should_quit changed on {name} (search mode: {})", s.search)));
    }
    if t.search != s.search {
        let ok = if t.search { !s.search && is_char(name, '/') } else { base == "Enter" || base == "Esc" };
        if !ok {
            return Some(("search-flag".into(), format!("is_search_mode changed to {} on {name}", t.search)));
        }
    }
    if t.sort != s.sort && !(!s.search && ['a', 'c', 'v', '.', 'f', 'l'].iter().any(|c| is_char(name, *c))) {
        return Some(("sort-key".into(), format!("sort_key changed on {name} (search mode: {})", s.search)));
    }
    if t.asc != s.asc && !(!s.search && is_char(name, '-')) {
        return Some(("sort-order".into(), format!("sort_asc changed on {name} (search mode: {})", s.search)));
    }
    None
}

/// One LIVE table object kept across a long run of events (every other exploration of this file rebuilds the object
/// from its observable state before each event, so a private field the handler keeps between events - a streak
/// counter, a remembered position - would be reset at every step). Every step is judged like any other transition.
fn live_run(n: usize, names: &[String], rep: &Report) -> u64 {
    let s0 = St { n, sel: Some(0), quit: false, search: false, sort: 3, asc: false, query: String::new(), width: 0 };
    let m = tokio::sync::Mutex::new(build(&s0));
    let mut g = m.try_lock().expect("fresh mutex");
    let mut before = read_back(&g);
    let mut steps = 0;
    for (i, name) in names.iter().enumerate() {
        let Some(ev) = event_by_name(name) else { continue };
        let r = guarded(|| {
            let _ = crate::update(&mut g, ev);
        })
        .map(|_| read_back(&g));
        steps += 1;
        if let Some((class, what)) = judge(&before, name, &r) {
            let short: Vec<&String> = names[..=i].iter().collect();
            rep.violation(&format!("live:{class}"), format!("event {i} of a run on one live table: {what}"), json!({"kind": "live", "rows": n, "events": short}));
            return steps;
        }
        match r {
            Ok(t) => before = t,
            Err(_) => return steps,
        }
    }
    steps
}

/// held keys (one event repeated 300 times) and two-phase runs A^n B^m over the navigation and mode keys, for n, m on
/// either side of 16, 32 and 64, on tables of 0, 1, 2, 3, 5 and 13 rows
fn live_runs(ctx: &Ctx, rep: &Report) -> u64 {
    let all: Vec<String> = alphabet().into_iter().map(|(n, _)| n).collect();
    let nav: Vec<String> = ["Char(j)", "Char(k)", "Up", "Down", "Char(g)", "Home", "PageUp", "Char(/)", "Char(x)", "Backspace", "Enter", "Esc", "Char(-)", "Char(a)"].iter().map(|s| s.to_string()).filter(|s| all.contains(s)).collect();
    let lens: Vec<usize> = if ctx.thorough() { vec![1, 2, 15, 16, 17, 18, 31, 32, 33, 34, 63, 64, 65, 66, 129, 257] } else { vec![1, 2, 16, 17, 18, 33, 34, 65, 66] };
    let mut runs: Vec<Vec<String>> = Vec::new();
    for a in &all {
        runs.push(std::iter::repeat(a.clone()).take(300).collect());
    }
    for a in &nav {
        for b in &nav {
            if a == b {
                continue;
            }
            for &n in &lens {
                for &m in &lens {
                    let mut r: Vec<String> = std::iter::repeat(a.clone()).take(n).collect();
                    r.extend(std::iter::repeat(b.clone()).take(m));
                    runs.push(r);
                }
            }
        }
    }
    let cnt = std::sync::atomic::AtomicU64::new(0);
    par_items(ctx.threads, runs.len(), |i| {
        for rows in [0usize, 1, 2, 3, 5, 13] {
            cnt.fetch_add(live_run(rows, &runs[i], rep), std::sync::atomic::Ordering::Relaxed);
            if stopped() {
                return;
            }
        }
    });
    let c = cnt.load(std::sync::atomic::Ordering::Relaxed);
    rep.part("runs on one live table object: held keys (x300) and two-phase runs A^n B^m", c, json!({"runs": runs.len(), "rows": [0, 1, 2, 3, 5, 13], "phase_lengths": lens}));
    c
}

fn starts(n: usize) -> Vec<St> {
    // main()'s initial state first, then every consistent non-initial start
    let mut v = vec![St { n, sel: Some(0), quit: false, search: false, sort: 3, asc: false, query: String::new(), width: 0 }];
    let mut sels: Vec<Option<usize>> = (0..n.max(1)).map(Some).collect();
    sels.push(None); // ratatui deselects when it renders an empty table
    for sel in sels {
        for quit in [false, true] {
            for search in [false, true] {
                for sort in 0..6u8 {
                    for asc in [false, true] {
                        for q in ["", "x", "xx"] {
                            v.push(St { n, sel, quit, search, sort, asc, query: q.to_string(), width: 80 });
                        }
                    }
                }
            }
        }
    }
    v
}

pub fn run(ctx: &Ctx, rep: &Report) {
    let alpha = alphabet();
    let max_n = if ctx.thorough() { 24 } else { 12 };
    rep.set_rule("explicit-state BFS; a state is (rows, selected, quit, search mode, sort key, sort order, query length class, width); non-trivial = distinct canonical states reached");
    rep.assume("search_query is abstracted to its length class {0,1,>=2}: update() only pushes/pops/clears it and never branches on its content (cross-checked by an un-abstracted bounded DFS)");
    rep.assume("the table size is fixed during a key sequence (the property's quantifier); starts with selected >= rows are not used");
    let mut total_states = 0u64;
    let mut total_trans = 0u64;
    let mut outcomes: BTreeMap<String, u64> = BTreeMap::new();
    for n in 0..=max_n {
        let mut seen: BTreeSet<St> = BTreeSet::new();
        let mut q: VecDeque<St> = VecDeque::new();
        for s in starts(n) {
            let c = canon(s);
            if seen.insert(c.clone()) {
                q.push_back(c);
            }
        }
        let mut trans = 0u64;
        while let Some(s) = q.pop_front() {
            if stopped() {
                break;
            }
            for (name, ev) in &alpha {
                let r = step(&s, *ev);
                trans += 1;
                if let Some((class, what)) = judge(&s, name, &r) {
                    rep.violation(&class, what, json!({"kind": "transition", "state": s.to_json(), "events": [name]}));
                    *outcomes.entry("violation".into()).or_insert(0) += 1;
                }
                if let Ok(t) = r {
                    let key = if t == s { "self-loop" } else if t.sel != s.sel { "selection-moved" } else { "flag-changed" };
                    *outcomes.entry(key.into()).or_insert(0) += 1;
                    let c = canon(t);
                    if seen.insert(c.clone()) {
                        q.push_back(c);
                    }
                } else {
                    *outcomes.entry("panic".into()).or_insert(0) += 1;
                }
            }
        }
        rep.part(&format!("bfs rows={n}"), trans, json!({"states": seen.len()}));
        if n == 2 {
            for s in seen.iter().take(3) {
                rep.sample(json!({"state": s.to_json()}));
            }
        }
        total_states += seen.len() as u64;
        total_trans += trans;
    }
    // un-abstracted cross-check: all event sequences to a depth from main()'s
    // initial state, query kept verbatim
    let depth = if ctx.thorough() { 4 } else { 3 };
    let mut seqs = 0u64;
    for n in [0usize, 1, 3] {
        let s0 = St { n, sel: Some(0), quit: false, search: false, sort: 3, asc: false, query: String::new(), width: 0 };
        let names: Vec<&str> = alpha.iter().map(|(n, _)| n.as_str()).collect();
        let cnt = std::sync::atomic::AtomicU64::new(0);
        let tr = std::sync::atomic::AtomicU64::new(0);
        par_items(ctx.threads, alpha.len(), |i| {
            let mut path = vec![i];
            let r = step(&s0, alpha[i].1);
            tr.fetch_add(1, std::sync::atomic::Ordering::Relaxed);
            if let Some((class, what)) = judge(&s0, names[i], &r) {
                rep.violation(&class, what, json!({"kind": "sequence", "state": s0.to_json(), "events": [names[i]]}));
            }
            if let Ok(t) = r {
                dfs(&t, &mut path, depth, &alpha, &names, &s0, rep, &cnt, &tr);
            }
        });
        seqs += cnt.load(std::sync::atomic::Ordering::Relaxed);
        total_trans += tr.load(std::sync::atomic::Ordering::Relaxed);
    }
    rep.part("unabstracted dfs", seqs, json!({"depth": depth}));
    // deep un-abstracted DFS over a small alphabet whose characters differ in kind (hex letter, digit, other
    // letter): the handler must not branch on what has been typed, however long the query gets
    {
        let small: Vec<(String, Event)> = alpha.iter().filter(|(n, _)| ["Char(/)", "Char(a)", "Char(1)", "Char(x)", "Char(q)", "Char(j)", "Enter", "Esc", "Backspace"].contains(&n.as_str())).cloned().collect();
        let deep = if ctx.thorough() { 9 } else { 8 };
        let names: Vec<&str> = small.iter().map(|(n, _)| n.as_str()).collect();
        let cnt = std::sync::atomic::AtomicU64::new(0);
        let tr = std::sync::atomic::AtomicU64::new(0);
        let s0 = St { n: 3, sel: Some(1), quit: false, search: false, sort: 3, asc: false, query: String::new(), width: 0 };
        // shard on the first two events
        par_items(ctx.threads, small.len() * small.len(), |i| {
            let (i0, i1) = (i / small.len(), i % small.len());
            let mut path = vec![i0];
            let r0 = step(&s0, small[i0].1);
            tr.fetch_add(1, std::sync::atomic::Ordering::Relaxed);
            if let Some((class, what)) = judge(&s0, names[i0], &r0) {
                rep.violation(&class, what, json!({"kind": "sequence", "state": s0.to_json(), "events": [names[i0]]}));
            }
            if let Ok(t0) = r0 {
                let r1 = step(&t0, small[i1].1);
                tr.fetch_add(1, std::sync::atomic::Ordering::Relaxed);
                path.push(i1);
                if let Some((class, what)) = judge(&t0, names[i1], &r1) {
                    rep.violation(&class, what, json!({"kind": "sequence", "state": s0.to_json(), "events": [names[i0], names[i1]]}));
                }
                if let Ok(t1) = r1 {
                    dfs(&t1, &mut path, deep, &small, &names, &s0, rep, &cnt, &tr);
                }
            }
        });
        total_trans += tr.load(std::sync::atomic::Ordering::Relaxed);
        rep.part("deep unabstracted dfs, 9-event alphabet", cnt.load(std::sync::atomic::Ordering::Relaxed), json!({"depth": deep}));
    }
    total_trans += live_runs(ctx, rep);
    rep.sample(json!({"events": ["Char(/)", "Char(x)", "Enter", "Char(j)"], "from": "initial state of main(), 3 rows"}));
    rep.state(total_states);
    rep.trans(total_trans);
    rep.eval(total_trans);
    rep.nontriv(total_states);
    rep.merge_outcomes(&outcomes);
    rep.set_bound(&format!("complete reachable state graph for 0..={max_n} rows over {} events from every consistent start; un-abstracted sequences to depth {depth}; update+draw BFS to depth {} with 0/1/3/4/13 aircraft", alpha.len(), if ctx.thorough() { 7 } else { 4 }));
    run_render(ctx, rep);
}

#[allow(clippy::too_many_arguments)]
fn dfs(
    s: &St,
    path: &mut Vec<usize>,
    depth: usize,
    alpha: &[(String, Event)],
    names: &[&str],
    s0: &St,
    rep: &Report,
    cnt: &std::sync::atomic::AtomicU64,
    tr: &std::sync::atomic::AtomicU64,
) {
    if path.len() >= depth || stopped() {
        cnt.fetch_add(1, std::sync::atomic::Ordering::Relaxed);
        return;
    }
    for (i, (name, ev)) in alpha.iter().enumerate() {
        let r = step(s, *ev);
        tr.fetch_add(1, std::sync::atomic::Ordering::Relaxed);
        path.push(i);
        if let Some((class, what)) = judge(s, name, &r) {
            let evs: Vec<&str> = path.iter().map(|k| names[*k]).collect();
            rep.violation(&class, what, json!({"kind": "sequence", "state": s0.to_json(), "events": evs}));
        }
        if let Ok(t) = r {
            dfs(&t, path, depth, alpha, names, s0, rep, cnt, tr);
        }
        path.pop();
    }
}

/// Replay: {"state": .., "events": [names]} applied from the state.
pub fn replay(w: &Value, rep: &Report) {
    if w["kind"].as_str() == Some("render") {
        replay_render(w, rep);
        rep.sample(w.clone());
        rep.outcome("replayed", 1);
        return;
    }
    if w["kind"].as_str() == Some("live") {
        let evs: Vec<String> = w["events"].as_array().map(|a| a.iter().filter_map(|x| x.as_str().map(String::from)).collect()).unwrap_or_default();
        let n = live_run(w["rows"].as_u64().unwrap_or(0) as usize, &evs, rep);
        rep.trans(n);
        rep.state(1);
        rep.sample(json!({"kind": "live", "rows": w["rows"], "events": evs.len()}));
        rep.outcome("replayed", 1);
        return;
    }
    let mut s = St::from_json(&w["state"]);
    let evs: Vec<String> = w["events"].as_array().map(|a| a.iter().filter_map(|x| x.as_str().map(String::from)).collect()).unwrap_or_default();
    for name in evs {
        let Some(ev) = event_by_name(&name) else {
            eprintln!("unknown event {name}");
            continue;
        };
        let r = step(&s, ev);
        rep.trans(1);
        rep.state(1);
        if let Some((class, what)) = judge(&s, &name, &r) {
            rep.violation(&class, what, w.clone());
        }
        match r {
            Ok(t) => s = t,
            Err(_) => break,
        }
    }
    rep.sample(w.clone());
    rep.outcome("replayed", 1);
}

// ---------------------------------------------------------------------------
// Phase 2: the handler together with the real renderer (table::build_table on a
// ratatui TestBackend), as the TUI task runs them: update(event) then draw.
// Rendering recomputes the rows from the state vectors and the search query, so
// the number of rows changes while keys are pressed.

use crate::snapshot::StateVectors;
use ratatui::backend::TestBackend;
use ratatui::Terminal;
use rs1090::decode::SensorMetadata;

#[derive(Clone, PartialEq, Eq, PartialOrd, Ord, Debug)]
pub struct St2 {
    pub total: usize,
    pub core: St,
}

/// what the harness knows about row i of the fleet: address, call sign, registration, type code
fn fleet_spec(i: usize) -> (u32, String, Option<String>, Option<String>) {
    match i {
        0 => (0x4840d6, "KLM1023".into(), Some("PH-BXA".into()), Some("B738".into())),
        1 => (0xa0b1c2, "N12345".into(), Some("N12345".into()), None),
        2 => (0x3c6444, "DLH4AB".into(), Some("D-AIBD".into()), Some("A319".into())),
        3 => (0x4ca4ed, "RYR4AX".into(), None, Some("B38M".into())),
        // more rows than the 12-line test terminal can show (the table scrolls)
        _ => (0x500000 + i as u32, format!("XB{i}4"), Some(format!("G-XB{i}")), Some("A20N".into())),
    }
}

/// The decoded records that fill the table, decoded once (the table itself is rebuilt for every transition through
/// the real update_snapshot, so that the harness does not depend on the fields of the table's structs)
fn fleet_records() -> &'static Vec<Vec<rs1090::decode::Message>> {
    use super::frames::*;
    static CACHE: std::sync::OnceLock<Vec<Vec<rs1090::decode::Message>>> = std::sync::OnceLock::new();
    CACHE.get_or_init(|| {
        (0..16)
            .map(|i| {
                let (a, cs, _, _) = fleet_spec(i);
                let frames = vec![
                    df17(5, a, &me_bds08(4, 3, &cs_codes(&cs)), 0),
                    df17(5, a, &me_bds05(11, 0, 0, ac12_q(30000 + 1000 * i as i32), 0, 0, 93000, 51372), 0),
                    df17(5, a, &me_bds09_gs(1, 0, 0, 0, 0, 400, 1, 20, 0, 1, 2 + i as u16, 0, 5), 0),
                    df20_21(20, 0, 0, 0, ac13_q(30000 + 1000 * i as i32), &mb_bds60(Some(200), Some(280), Some(190), Some(5), Some(6)), a),
                ];
                frames.iter().filter_map(|f| rs1090::decode::Message::try_from(f.as_slice()).ok()).collect()
            })
            .collect()
    })
}

fn fleet(n: usize) -> std::collections::BTreeMap<String, StateVectors> {
    fleet_aged(n, false)
}

/// `mixed_ages`: the rows were last seen 3600 s in the future, now, 3 s, 30 s, 100 s ago, ... (clock skew between the
/// receiver and this machine, and every age class the LAST column distinguishes)
fn fleet_aged(n: usize, mixed_ages: bool) -> std::collections::BTreeMap<String, StateVectors> {
    let now = std::time::SystemTime::now().duration_since(std::time::UNIX_EPOCH).map(|d| d.as_secs()).unwrap_or(0);
    let app = tokio::sync::Mutex::new(Jet1090::default());
    let db = std::collections::BTreeMap::new();
    for (i, msgs) in fleet_records().iter().take(n).enumerate() {
        for (k, m) in msgs.iter().enumerate() {
            let mut tm = rs1090::decode::TimedMessage {
                timestamp: now as f64 - 100.0 + k as f64,
                frame: vec![],
                message: Some(m.clone()),
                metadata: vec![SensorMetadata { system_timestamp: now as f64, gnss_timestamp: None, nanoseconds: None, rssi: None, serial: 1, name: Some("toulouse".to_string()), ..Default::default() }],
                decode_time: None,
                ..Default::default()
            };
            futures::executor::block_on(crate::snapshot::update_snapshot(&app, &mut tm, &db));
        }
        let _ = i;
    }
    let mut j = app.into_inner();
    for (i, sv) in j.state_vectors.values_mut().enumerate() {
        let _ = i;
        let idx = (0..n).find(|k| format!("{:06x}", fleet_spec(*k).0) == sv.cur.icao24).unwrap_or(0);
        let (_, _, reg, tc) = fleet_spec(idx);
        sv.cur.registration = reg;
        sv.cur.typecode = tc;
        sv.cur.latitude = Some(43.5 + idx as f64);
        sv.cur.longitude = Some(1.5);
        // in the future: the row never ages out during the run
        sv.cur.lastseen = now + 3600;
        if mixed_ages {
            sv.cur.lastseen = match idx % 6 {
                0 => now + 3600,
                1 => now + 2,
                2 => now,
                3 => now.saturating_sub(4),
                4 => now.saturating_sub(8),
                _ => now.saturating_sub(45),
            };
        }
    }
    std::mem::take(&mut j.state_vectors)
}

fn build2(s: &St2) -> Jet1090 {
    let mut j = build(&s.core);
    j.state_vectors = fleet(s.total);
    j
}

/// update(event) followed by a draw, each guarded. Returns the state after the draw.
fn step2(s: &St2, ev: Event) -> Result<St2, String> {
    let m = tokio::sync::Mutex::new(build2(s));
    let mut g = m.try_lock().expect("fresh mutex");
    guarded(|| {
        let _ = crate::update(&mut g, ev);
    })
    .map_err(|p| format!("update: {p}"))?;
    let w = if g.width == 0 { 80 } else { g.width.min(260) };
    guarded(|| {
        let mut term = Terminal::new(TestBackend::new(w, 12)).expect("test terminal");
        term.draw(|frame| crate::table::build_table(frame, &mut g)).map(|_| ())
    })
    .map_err(|p| format!("draw: {p}"))?
    .map_err(|e| format!("draw: io error {e}"))?;
    Ok(St2 { total: s.total, core: read_back(&g) })
}

fn alphabet2() -> Vec<(String, Event)> {
    let mut v = Vec::new();
    for c in ['j', 'k', 'g', 'q', 'a', 'c', '.', '-', '/', 'x', '4', '(', 'b', '\\', '[', ']', '*', '+', '?', '|', '{', '^', '$'] {
        v.push((format!("Char({c})"), Event::Key(KeyEvent::new(KeyCode::Char(c), KeyModifiers::NONE))));
    }
    for (n, k) in [("Esc", KeyCode::Esc), ("Enter", KeyCode::Enter), ("Backspace", KeyCode::Backspace), ("Up", KeyCode::Up), ("Down", KeyCode::Down), ("Home", KeyCode::Home)] {
        v.push((n.to_string(), Event::Key(KeyEvent::new(k, KeyModifiers::NONE))));
    }
    for w in [60u16, 75, 95, 115, 125, 200] {
        v.push((format!("Tick({w})"), Event::Tick(w)));
    }
    v
}

/// the matching rows a correct renderer must show for a query
fn expected_rows(total: usize, query: &str) -> Option<usize> {
    let q = query.to_lowercase().replace('-', "");
    let re = regex::Regex::new(&q).or_else(|_| regex::Regex::new("")).ok()?;
    Some(
        (0..total)
            .filter(|i| {
                let (a, cs, reg, tc) = fleet_spec(*i);
                re.is_match(&cs.to_lowercase())
                    || re.is_match(&format!("{a:06x}"))
                    || tc.as_ref().is_some_and(|s| re.is_match(&s.to_lowercase()))
                    || reg.as_ref().is_some_and(|s| re.is_match(&s.replace('-', "").to_lowercase()))
                    || re.is_match("toulouse")
            })
            .count(),
    )
}

/// fleet sizes of the render phase
const FLEETS: [usize; 5] = [0, 1, 3, 4, 13];

pub fn run_render(ctx: &Ctx, rep: &Report) {
    let alpha = alphabet2();
    let depth = if ctx.thorough() { 5 } else { 4 };
    let mut total_states = 0u64;
    let mut total_trans = 0u64;
    for total0 in FLEETS {
        let total = total0;
        let s0 = St2 { total, core: St { n: 0, sel: Some(0), quit: false, search: false, sort: 3, asc: false, query: String::new(), width: 0 } };
        let mut seen: BTreeSet<St2> = BTreeSet::new();
        let mut frontier: Vec<(St2, Vec<String>)> = vec![(s0.clone(), vec![])];
        seen.insert(s0);
        let mut trans = 0u64;
        for _d in 0..depth {
            let found: std::sync::Mutex<Vec<(St2, Vec<String>)>> = std::sync::Mutex::new(Vec::new());
            let tcount = std::sync::atomic::AtomicU64::new(0);
            par_items(ctx.threads, frontier.len(), |fi| {
                let (s, path) = &frontier[fi];
                if stopped() {
                    return;
                }
                let mut local = Vec::new();
                // the UI events, and the environment's moves: between two events the table may have gained or lost
                // aircraft (the snapshot and expiry tasks hold the same lock); "Fleet(n)" = the fleet becomes n
                // aircraft, then the periodic tick redraws
                let mut moves: Vec<(String, Event, usize)> = alpha.iter().map(|(n, e)| (n.clone(), *e, s.total)).collect();
                for nt in FLEETS {
                    if nt != s.total {
                        moves.push((format!("Fleet({nt})"), Event::Tick(if s.core.width == 0 { 80 } else { s.core.width }), nt));
                    }
                }
                for (name, ev, nt) in &moves {
                    // bound the query length (the only unbounded component)
                    if s.core.search && name.starts_with("Char(") && s.core.query.chars().count() >= 3 {
                        continue;
                    }
                    let from = St2 { total: *nt, core: s.core.clone() };
                    let r = step2(&from, *ev);
                    let total = *nt;
                    let jname = if name.starts_with("Fleet(") { "Tick(80)".to_string() } else { name.clone() };
                    tcount.fetch_add(1, std::sync::atomic::Ordering::Relaxed);
                    let mut p2 = path.clone();
                    p2.push(name.clone());
                    let wit = json!({"kind": "render", "aircraft": total0, "events": p2});
                    match r {
                        Err(p) => {
                            let site = if p.starts_with("draw") { "draw" } else { "update" };
                            rep.violation(&format!("panic:{site}:{}:{}", last_panic_file(), panic_class(&p)), format!("{p} (at {}) after {:?} with {total} aircraft", last_panic_loc(), p2), wit);
                        }
                        Ok(t) => {
                            // after a draw the rows are those matching the query, and the selection is inside them
                            if let Some(want) = expected_rows(total, &t.core.query) {
                                if t.core.n != want {
                                    rep.violation("render:rows", format!("query {:?} over {total} aircraft shows {} rows, {want} match", t.core.query, t.core.n), wit.clone());
                                }
                            }
                            match t.core.sel {
                                Some(i) if t.core.n == 0 || i >= t.core.n => {
                                    rep.violation("render:selection-out-of-range", format!("after {:?} the selected index is {i} with {} rows", p2, t.core.n), wit.clone());
                                }
                                _ => {}
                            }
                            // flag rules as in phase 1 (rows may change, selection is judged above)
                            let mut a = s.core.clone();
                            let mut b = t.core.clone();
                            a.n = 0;
                            b.n = 0;
                            a.sel = None;
                            b.sel = None;
                            if let Some((class, what)) = judge(&a, &jname, &Ok(b)) {
                                rep.violation(&format!("render:{class}"), what, wit.clone());
                            }
                            local.push((t, p2));
                        }
                    }
                }
                found.lock().unwrap().extend(local);
            });
            trans += tcount.load(std::sync::atomic::Ordering::Relaxed);
            let mut cand = found.into_inner().unwrap();
            // deterministic choice of the path kept for a state
            cand.sort();
            let mut next = Vec::new();
            for (t, p2) in cand {
                if seen.insert(t.clone()) {
                    next.push((t, p2));
                }
            }
            frontier = next;
        }
        rep.part(&format!("update+draw, {total} aircraft"), trans, json!({"states": seen.len(), "depth": depth}));
        total_states += seen.len() as u64;
        total_trans += trans;
    }
    // (a terminal with no columns but three or more rows makes ratatui's Scrollbar panic on the pinned tree; such a
    // terminal cannot exist, so width 0 is explored with height 0 only - "no terminal at all" - and not judged otherwise)
    // terminal geometry: every drawing-area width 0..=300 x heights 0..=40, 60, 100, for an empty, a one-row and a
    // 13-row table (rows of mixed ages), search line off and on, the application's idea of the width equal to the real
    // one or left at its default
    {
        let heights: Vec<u16> = (0..=40u16).chain([60, 100]).collect();
        let wmax: u16 = 300;
        let cases: Vec<(usize, bool, bool)> = [0usize, 1, 13].iter().flat_map(|t| [false, true].into_iter().flat_map(move |s| [false, true].into_iter().map(move |k| (*t, s, k)))).collect();
        let cnt = std::sync::atomic::AtomicU64::new(0);
        par_items(ctx.threads, cases.len() * (wmax as usize + 1), |i| {
            let (total, search, know_width) = cases[i / (wmax as usize + 1)];
            let w = (i % (wmax as usize + 1)) as u16;
            for h in &heights {
                if stopped() {
                    return;
                }
                if (w == 0) != (*h == 0) {
                    continue;
                }
                cnt.fetch_add(1, std::sync::atomic::Ordering::Relaxed);
                if let Err(p) = draw_at(total, search, know_width, w, *h) {
                    rep.violation(
                        &format!("panic:draw:{}:{}", last_panic_file(), panic_class(&p)),
                        format!("{p} (at {}) drawing {total} aircraft on a {w}x{h} terminal, search {}", last_panic_loc(), if search { "on" } else { "off" }),
                        json!({"kind": "geometry", "aircraft": total, "search": search, "know_width": know_width, "width": w, "height": h}),
                    );
                }
            }
        });
        let c = cnt.load(std::sync::atomic::Ordering::Relaxed);
        rep.part("draw at every terminal size (width 0..=300 x 43 heights), 3 tables x search on/off x width known/unknown", c, json!({}));
        total_trans += c;
        total_states += c;
    }
    // very long queries: '/' followed by 63..=300 characters, then Enter / Esc / Backspace, a draw after every key
    {
        let mut c = 0u64;
        for ch in ['a', '4', '.', '(', '\u{e9}'] {
            for len in [63usize, 64, 65, 100, 300] {
                for last in [KeyCode::Enter, KeyCode::Esc, KeyCode::Backspace] {
                    let mut s = St2 { total: 3, core: St { n: 0, sel: Some(0), quit: false, search: false, sort: 3, asc: false, query: String::new(), width: 0 } };
                    let mut evs = vec![Event::Key(KeyEvent::new(KeyCode::Char('/'), KeyModifiers::NONE))];
                    evs.extend(std::iter::repeat(Event::Key(KeyEvent::new(KeyCode::Char(ch), KeyModifiers::NONE))).take(len));
                    evs.push(Event::Key(KeyEvent::new(last, KeyModifiers::NONE)));
                    for (i, ev) in evs.iter().enumerate() {
                        c += 1;
                        match step2(&s, *ev) {
                            Ok(t) => {
                                if let Some(k) = t.core.sel {
                                    if t.core.n == 0 && k != 0 || t.core.n > 0 && k >= t.core.n {
                                        rep.violation("render:selection-out-of-range", format!("selected index {k} with {} rows while typing a query of {i} characters", t.core.n), json!({"kind": "long-query", "char": ch.to_string(), "len": len}));
                                    }
                                }
                                s = t;
                            }
                            Err(p) => {
                                rep.violation(&format!("panic:long-query:{}:{}", last_panic_file(), panic_class(&p)), format!("{p} (at {}) after '/' and {i} x {ch:?}", last_panic_loc()), json!({"kind": "long-query", "char": ch.to_string(), "len": len}));
                                break;
                            }
                        }
                    }
                }
            }
        }
        // k ASCII characters, then one character of 2, 3 or 4 bytes, then a few more: a multi-byte character across
        // every byte offset from 0 to 140 (buffers cut at a byte count, whatever the count is)
        for wide in ['\u{e9}', '\u{20ac}', '\u{1f600}'] {
            for k in 0usize..=140 {
                let mut s = St2 { total: 3, core: St { n: 0, sel: Some(0), quit: false, search: false, sort: 3, asc: false, query: String::new(), width: 0 } };
                let mut evs = vec![Event::Key(KeyEvent::new(KeyCode::Char('/'), KeyModifiers::NONE))];
                evs.extend(std::iter::repeat(Event::Key(KeyEvent::new(KeyCode::Char('a'), KeyModifiers::NONE))).take(k));
                evs.push(Event::Key(KeyEvent::new(KeyCode::Char(wide), KeyModifiers::NONE)));
                evs.push(Event::Key(KeyEvent::new(KeyCode::Char('b'), KeyModifiers::NONE)));
                evs.push(Event::Key(KeyEvent::new(KeyCode::Backspace, KeyModifiers::NONE)));
                evs.push(Event::Key(KeyEvent::new(KeyCode::Backspace, KeyModifiers::NONE)));
                for (i, ev) in evs.iter().enumerate() {
                    c += 1;
                    // only the keys after the ASCII run are followed by a draw (the run itself was drawn above)
                    let r = if i <= k {
                        let m = tokio::sync::Mutex::new(build2(&s));
                        let mut g = m.try_lock().expect("fresh mutex");
                        guarded(|| {
                            let _ = crate::update(&mut g, *ev);
                        })
                        .map(|_| St2 { total: s.total, core: read_back(&g) })
                        .map_err(|p| format!("update: {p}"))
                    } else {
                        step2(&s, *ev)
                    };
                    match r {
                        Ok(t) => s = t,
                        Err(p) => {
                            rep.violation(&format!("panic:long-query:{}:{}", last_panic_file(), panic_class(&p)), format!("{p} (at {}) after '/', {k} x 'a' and {wide:?}", last_panic_loc()), json!({"kind": "long-query", "char": wide.to_string(), "len": k}));
                            break;
                        }
                    }
                }
            }
        }
        // a query that outgrows the line it is shown on, with a multi-byte character near its START, at several terminal
        // widths: whatever part of the query is shown (head, tail, middle), the cut must respect character boundaries
        for width in [20u16, 40, 60, 80, 100, 132] {
            for wide in ['\u{e9}', '\u{20ac}', '\u{1f600}'] {
                for at in 0usize..=8 {
                    let mut s = St2 { total: 3, core: St { n: 0, sel: Some(0), quit: false, search: false, sort: 3, asc: false, query: String::new(), width } };
                    let mut evs = vec![Event::Key(KeyEvent::new(KeyCode::Char('/'), KeyModifiers::NONE))];
                    for i in 0..(width as usize + 12) {
                        let ch = if i == at || i == at + 9 { wide } else { (b'a' + (i % 26) as u8) as char };
                        evs.push(Event::Key(KeyEvent::new(KeyCode::Char(ch), KeyModifiers::NONE)));
                    }
                    for (i, ev) in evs.iter().enumerate() {
                        c += 1;
                        match step2(&s, *ev) {
                            Ok(t) => s = t,
                            Err(p) => {
                                rep.violation(&format!("panic:long-query:{}:{}", last_panic_file(), panic_class(&p)), format!("{p} (at {}) on a terminal {width} columns wide after '/' and {i} characters with {wide:?} at positions {at} and {}", last_panic_loc(), at + 9), json!({"kind": "long-query-width", "char": wide.to_string(), "at": at, "width": width}));
                                break;
                            }
                        }
                    }
                }
            }
        }
        rep.part("very long search queries (63..=300 characters; a multi-byte character at every byte offset 0..=140; queries that outgrow the line at six widths with a multi-byte character near their start), a draw after every key", c, json!({}));
        total_trans += c;
        total_states += c;
    }
    // sorting a large table whose columns mix values, blanks and ties: every sequence of up to three keys over the
    // sort / direction / movement keys, a draw after each (sort routines switch algorithm above ~20 elements, and a
    // comparator that is not a total order only shows on larger inputs)
    {
        let keys: Vec<(String, Event)> = alpha.iter().filter(|(n, _)| n.starts_with("Char(") && !["Char(/)", "Char(q)"].contains(&n.as_str())).cloned().collect();
        let mut seqs: Vec<Vec<usize>> = Vec::new();
        for a in 0..keys.len() {
            seqs.push(vec![a]);
            for b in 0..keys.len() {
                seqs.push(vec![a, b]);
                if ctx.thorough() {
                    for c in 0..keys.len() {
                        seqs.push(vec![a, b, c]);
                    }
                }
            }
        }
        let sizes: &[usize] = if ctx.thorough() { &[21, 70, 300] } else { &[70] };
        let cnt = std::sync::atomic::AtomicU64::new(0);
        for n in sizes {
            par_items(ctx.threads, seqs.len(), |i| {
                let evs: Vec<Event> = seqs[i].iter().map(|k| keys[*k].1).collect();
                cnt.fetch_add(1, std::sync::atomic::Ordering::Relaxed);
                if let Err(p) = sort_and_draw(*n, &evs) {
                    let names: Vec<&str> = seqs[i].iter().map(|k| keys[*k].0.as_str()).collect();
                    rep.violation(
                        &format!("panic:sort:{}:{}", last_panic_file(), panic_class(&p)),
                        format!("{p} (at {}) after {names:?} on a table of {n} aircraft with partly blank columns", last_panic_loc()),
                        json!({"kind": "sort", "aircraft": n, "events": names}),
                    );
                }
            });
        }
        let c = cnt.load(std::sync::atomic::Ordering::Relaxed);
        rep.part("sorting a table of 70 (thorough 21 / 70 / 300) heterogeneous aircraft: key sequences with a draw after each key", c, json!({"keys": keys.len()}));
        total_trans += c;
        total_states += c;
    }
    rep.state(total_states);
    rep.trans(total_trans);
    rep.eval(total_trans);
    rep.nontriv(total_states);
    rep.sample(json!({"kind": "render", "aircraft": 3, "events": ["Char(/)", "Char(x)", "Enter", "Char(j)"]}));
}

/// A fleet of `n` aircraft that know different things: row i has a call sign, a position (altitude), a velocity
/// (ground speed, track, vertical rate) and a BDS 6,0 reply (IAS, Mach, heading) according to bits 0..3 of i, so that
/// every sort column holds a mixture of values and blanks, with ties.
fn fleet_hetero(n: usize) -> std::collections::BTreeMap<String, StateVectors> {
    use super::frames::*;
    let now = std::time::SystemTime::now().duration_since(std::time::UNIX_EPOCH).map(|d| d.as_secs()).unwrap_or(0);
    let app = tokio::sync::Mutex::new(Jet1090::default());
    let db = std::collections::BTreeMap::new();
    for i in 0..n {
        let a = 0x600000 + 0x0101 * i as u32;
        let mut frames = vec![df11(5, a, 0)];
        if i & 1 != 0 {
            frames.push(df17(5, a, &me_bds08(4, 3, &cs_codes(&format!("T{}", i % 7))), 0));
        }
        if i & 2 != 0 {
            frames.push(df17(5, a, &me_bds05(11, 0, 0, ac12_q(10000 + 1000 * (i % 5) as i32), 0, 0, 93000, 51372), 0));
        }
        if i & 4 != 0 {
            frames.push(df17(5, a, &me_bds09_gs(1, 0, 0, 0, 0, 100 + 50 * (i % 3) as u16, 1, 20, 0, (i % 2) as u8, 2 + (i % 4) as u16, 0, 5), 0));
        }
        if i & 8 != 0 {
            frames.push(df20_21(20, 0, 0, 0, ac13_q(30000), &mb_bds60(Some(200 + (i % 3) as u32), Some(280), Some(190), Some(5), Some(6)), a));
        }
        for (k, f) in frames.iter().enumerate() {
            if let Ok(m) = rs1090::decode::Message::try_from(f.as_slice()) {
                // (every record that reaches the table in jet1090 carries the metadata of its reception: the REFERENCE
                // column relies on it)
                let metadata = vec![SensorMetadata { system_timestamp: now as f64, gnss_timestamp: None, nanoseconds: None, rssi: None, serial: 1 + (i % 3) as u64, name: if i % 3 == 0 { None } else { Some(format!("rx{}", i % 3)) }, ..Default::default() }];
                let mut tm = rs1090::decode::TimedMessage { timestamp: now as f64 - 10.0 + k as f64, frame: vec![], message: Some(m), metadata, decode_time: None, ..Default::default() };
                futures::executor::block_on(crate::snapshot::update_snapshot(&app, &mut tm, &db));
            }
        }
    }
    let mut j = app.into_inner();
    for sv in j.state_vectors.values_mut() {
        sv.cur.lastseen = now + 3600;
    }
    std::mem::take(&mut j.state_vectors)
}

/// Apply `events` to a table of `n` heterogeneous aircraft on a 200 x 90 terminal, drawing after every event.
fn sort_and_draw(n: usize, events: &[Event]) -> Result<(), String> {
    let core = St { n: 0, sel: Some(0), quit: false, search: false, sort: 3, asc: false, query: String::new(), width: 200 };
    let mut j = build(&core);
    j.state_vectors = fleet_hetero(n);
    let m = tokio::sync::Mutex::new(j);
    let mut g = m.try_lock().expect("fresh mutex");
    for ev in std::iter::once(&Event::Tick(200)).chain(events.iter()) {
        guarded(|| {
            let _ = crate::update(&mut g, *ev);
        })
        .map_err(|p| format!("update: {p}"))?;
        guarded(|| {
            let mut term = Terminal::new(TestBackend::new(200, 90)).expect("test terminal");
            term.draw(|frame| crate::table::build_table(frame, &mut g)).map(|_| ())
        })
        .map_err(|p| format!("draw: {p}"))?
        .map_err(|e| format!("draw: io error {e}"))?;
        let st = read_back(&g);
        if let Some(i) = st.sel {
            if st.n == 0 && i != 0 || st.n > 0 && i >= st.n {
                return Err(format!("draw: selection {i} out of range with {} rows", st.n));
            }
        }
    }
    Ok(())
}

/// One draw of a table of `total` aircraft (mixed ages) on a w x h terminal.
fn draw_at(total: usize, search: bool, know_width: bool, w: u16, h: u16) -> Result<(), String> {
    let core = St { n: 0, sel: Some(0), quit: false, search, sort: 3, asc: false, query: if search { "a".to_string() } else { String::new() }, width: if know_width { w } else { 0 } };
    let mut j = build(&core);
    j.state_vectors = fleet_aged(total, true);
    let m = tokio::sync::Mutex::new(j);
    let mut g = m.try_lock().expect("fresh mutex");
    guarded(|| {
        let mut term = Terminal::new(TestBackend::new(w, h)).expect("test terminal");
        term.draw(|frame| crate::table::build_table(frame, &mut g)).map(|_| ())
    })
    .map_err(|p| format!("draw: {p}"))?
    .map_err(|e| format!("draw: io error {e}"))?;
    if let Some(i) = read_back(&g).sel {
        let n = read_back(&g).n;
        if n == 0 && i != 0 || n > 0 && i >= n {
            return Err(format!("draw: selection {i} out of range with {n} rows"));
        }
    }
    Ok(())
}

pub fn replay_render(w: &Value, rep: &Report) {
    if w["kind"].as_str() == Some("sort") {
        let alpha = alphabet2();
        let evs: Vec<Event> = w["events"].as_array().map(|a| a.iter().filter_map(|x| alpha.iter().find(|(n, _)| Some(n.as_str()) == x.as_str()).map(|(_, e)| *e)).collect()).unwrap_or_default();
        if let Err(p) = sort_and_draw(w["aircraft"].as_u64().unwrap_or(70) as usize, &evs) {
            rep.violation(&format!("panic:sort:{}:{}", last_panic_file(), panic_class(&p)), p, w.clone());
        }
        rep.trans(1);
        rep.state(1);
        return;
    }
    if w["kind"].as_str() == Some("long-query-width") {
        let width = w["width"].as_u64().unwrap_or(80) as u16;
        let at = w["at"].as_u64().unwrap_or(0) as usize;
        let wide = w["char"].as_str().and_then(|x| x.chars().next()).unwrap_or('\u{e9}');
        let mut s = St2 { total: 3, core: St { n: 0, sel: Some(0), quit: false, search: false, sort: 3, asc: false, query: String::new(), width } };
        let mut evs = vec![Event::Key(KeyEvent::new(KeyCode::Char('/'), KeyModifiers::NONE))];
        for i in 0..(width as usize + 12) {
            let ch = if i == at || i == at + 9 { wide } else { (b'a' + (i % 26) as u8) as char };
            evs.push(Event::Key(KeyEvent::new(KeyCode::Char(ch), KeyModifiers::NONE)));
        }
        for ev in evs {
            match step2(&s, ev) {
                Ok(t) => s = t,
                Err(p) => {
                    rep.violation(&format!("panic:long-query:{}:{}", last_panic_file(), panic_class(&p)), p, w.clone());
                    break;
                }
            }
        }
        rep.trans(1);
        rep.state(1);
        return;
    }
    if w["kind"].as_str() == Some("geometry") {
        let (total, search, kw) = (w["aircraft"].as_u64().unwrap_or(0) as usize, w["search"].as_bool().unwrap_or(false), w["know_width"].as_bool().unwrap_or(false));
        if let Err(p) = draw_at(total, search, kw, w["width"].as_u64().unwrap_or(80) as u16, w["height"].as_u64().unwrap_or(12) as u16) {
            rep.violation(&format!("panic:draw:{}:{}", last_panic_file(), panic_class(&p)), p, w.clone());
        }
        rep.trans(1);
        rep.state(1);
        return;
    }
    let total = w["aircraft"].as_u64().unwrap_or(0) as usize;
    let mut s = St2 { total, core: St { n: 0, sel: Some(0), quit: false, search: false, sort: 3, asc: false, query: String::new(), width: 0 } };
    let alpha = alphabet2();
    for name in w["events"].as_array().map(|a| a.iter().filter_map(|x| x.as_str()).collect::<Vec<_>>()).unwrap_or_default() {
        let fleet_ev;
        let ev = if let Some(n) = name.strip_prefix("Fleet(").and_then(|x| x.strip_suffix(')')).and_then(|x| x.parse::<usize>().ok()) {
            s.total = n;
            fleet_ev = Event::Tick(if s.core.width == 0 { 80 } else { s.core.width });
            &fleet_ev
        } else {
            let Some((_, ev)) = alpha.iter().find(|(n, _)| n == name) else { continue };
            ev
        };
        match step2(&s, *ev) {
            Ok(t) => {
                if let Some(i) = t.core.sel {
                    if t.core.n == 0 || i >= t.core.n {
                        rep.violation("render:selection-out-of-range", format!("selected index {i} with {} rows", t.core.n), w.clone());
                    }
                }
                s = t;
            }
            Err(p) => {
                let site = if p.starts_with("draw") { "draw" } else { "update" };
                rep.violation(&format!("panic:{site}:{}:{}", last_panic_file(), panic_class(&p)), p, w.clone());
                break;
            }
        }
        rep.trans(1);
    }
    rep.state(1);
}

// C12 — state-vector table: every record history up to a depth over
// (aircraft x message kind) is replayed on a fresh real Jet1090 through the
// real snapshot::update_snapshot; the table is compared with a reference table
// (a plain map built from the records' own JSON) and with the solo replay of
// each aircraft's own records (projection equality).

use super::common::*;
use super::frames::*;
use crate::snapshot::{store_history, update_snapshot};
use crate::Jet1090;
use rs1090::decode::adsb::ME;
use rs1090::decode::{Message, SensorMetadata, TimedMessage, DF};
use serde_json::{json, Value};
use std::collections::{BTreeMap, BTreeSet};
use std::sync::atomic::{AtomicU64, Ordering};

pub const ADDRS: [u32; 3] = [0x4840d6, 0x4840d7, 0xa0b1c2];
/// boundary addresses (all-zero, all-one, a single bit)
pub const ADDRS_EDGE: [u32; 3] = [0x000000, 0xffffff, 0x000001];

pub fn kinds() -> Vec<&'static str> {
    vec![
        "DF0", "DF4", "DF5", "DF11", "DF11:ii=5", "DF11:residual", "DF16",
        "DF17:05", "DF17:05+pos", "DF17:06+pos", "DF17:08", "DF17:08#", "DF17:09gs", "DF17:09ias", "DF17:09tas", "DF17:09gs-supersonic", "DF17:09tas-supersonic",
        "DF17:61", "DF17:62", "DF17:65air1", "DF17:65air2", "DF17:65sfc2", "DF17:tc0",
        "DF18:05+pos", "DF18:06+pos", "DF18:08", "DF18:09gs",
        "DF20:20", "DF20:40", "DF20:50", "DF20:60", "DF20:empty", "DF21:20", "DF21:50", "DF21:60", "DF21:50+60", "DF20:50+60",
        "DF19", "DF24",
    ]
}

pub fn core_kinds() -> Vec<&'static str> {
    vec!["DF4", "DF5", "DF11", "DF17:05+pos", "DF17:06+pos", "DF17:08", "DF17:09gs", "DF17:62", "DF18:05+pos", "DF20:50", "DF21:60", "DF24"]
}

/// Build the decoded message of `kind` for address `a`; every value is a
/// function of `t` (unique per aircraft and step) so that it identifies the
/// record it came from.
pub fn make(kind: &str, a: u32, t: u32) -> Option<Message> {
    let alt = 5000 + 100 * t as i32;
    let sq = id13(((t / 8) % 8) as u8, (t % 8) as u8, 1, 2);
    let cs = cs_codes(&format!("T{t:02}AB"));
    let mut cs_bad = cs;
    cs_bad[7] = 63; // unassigned code: rendered as '#'
    let frame: Vec<u8> = match kind {
        "DF0" => df0(0, 0, 3, 3, ac13_q(alt), a),
        "DF4" => df4_5(4, 0, 0, 0, ac13_q(alt), a),
        "DF5" => df4_5(5, 0, 0, 0, sq, a),
        "DF11" => df11(5, a, 0),
        // an all-call reply to an interrogator (II = 5) and one with a parity residual above 127 (still decoded and shown)
        "DF11:ii=5" => df11(5, a, 5),
        "DF11:residual" => df11(5, a, 0x004005),
        "DF16" => df16(0, 3, 3, ac13_q(alt), &[0x30, 0, 0, 0, 0, 0, 0], a),
        "DF17:05" | "DF17:05+pos" => df17(5, a, &me_bds05(11, 0, 0, ac12_q(alt), 0, (t & 1) as u8, 1000 + t, 2000 + t), 0),
        "DF17:06+pos" => df17(5, a, &me_bds06(7, (10 + t) as u8, 1, (t % 128) as u8, 0, (t & 1) as u8, 1000 + t, 2000 + t), 0),
        "DF17:08" => df17(5, a, &me_bds08(4, 0, &cs), 0),
        "DF17:08#" => df17(5, a, &me_bds08(4, 0, &cs_bad), 0),
        "DF17:09gs" => df17(5, a, &me_bds09_gs(1, 0, 0, 0, 0, (100 + t) as u16, 1, 50, 0, 0, (t + 2) as u16, 0, 5), 0),
        "DF17:09ias" => df17(5, a, &me_bds09_as(3, 0, 0, 0, 1, (t * 8) as u16, 0, (200 + t) as u16, 0, 1, (t + 2) as u16, 0, 5), 0),
        "DF17:09tas" => df17(5, a, &me_bds09_as(3, 0, 0, 0, 1, (t * 8 + 1) as u16, 1, (300 + t) as u16, 0, 1, (t + 3) as u16, 0, 5), 0),
        // the supersonic subtypes (2: ground speed, 4: airspeed; 4-kt units)
        "DF17:09gs-supersonic" => df17(5, a, &me_bds09_gs(2, 0, 0, 0, 0, (150 + t) as u16, 1, 60, 0, 0, (t + 2) as u16, 0, 5), 0),
        "DF17:09tas-supersonic" => df17(5, a, &me_bds09_as(4, 0, 0, 0, 1, (t * 8 + 1) as u16, 1, (370 + t) as u16, 0, 1, (t + 3) as u16, 0, 5), 0),
        "DF17:61" => df17(5, a, &me_bds61(1, 0, sq), 0),
        "DF17:62" => df17(5, a, &me_bds62(1, 0, (100 + 4 * t) as u16, 300, 1, t as u16, (t % 12) as u8, 1, 3, 0), 0),
        "DF17:65air1" => df17(5, a, &me_bds65(0, 0, 0, 1, 0, (t % 12) as u8, 0), 0),
        "DF17:65air2" => df17(5, a, &me_bds65(0, 0, 0, 2, 0, ((t + 1) % 12) as u8, 0), 0),
        "DF17:65sfc2" => df17(5, a, &me_bds65(1, 0, 0, 2, 0, ((t + 2) % 12) as u8, 0), 0),
        "DF17:tc0" => df17(5, a, &[0u8; 7], 0),
        "DF18:05+pos" => df18(2, a, &me_bds05(11, 0, 0, ac12_q(alt + 25), 0, (t & 1) as u8, 1000 + t, 2000 + t), 0),
        "DF18:06+pos" => df18(2, a, &me_bds06(7, (20 + t) as u8, 1, ((t + 1) % 128) as u8, 0, (t & 1) as u8, 1000 + t, 2000 + t), 0),
        "DF18:08" => df18(0, a, &me_bds08(4, 0, &cs), 0),
        "DF18:09gs" => df18(6, a, &me_bds09_gs(1, 0, 0, 0, 0, (100 + t) as u16, 1, 50, 0, 0, (t + 2) as u16, 0, 5), 0),
        "DF20:20" => df20_21(20, 0, 0, 0, ac13_q(alt), &mb_bds20(&cs), a),
        "DF20:40" => df20_21(20, 0, 0, 0, ac13_q(alt), &mb_bds40(Some((3000 + 100 * t) / 16 + 1), Some((3000 + 100 * t) / 16 + 1), Some(2132), None, None), a),
        "DF20:50" => df20_21(20, 0, 0, 0, ac13_q(alt), &mb_bds50(Some(t), Some(100 + t), Some(200 + t), Some(t), Some(200 + t)), a),
        "DF20:60" => df20_21(20, 0, 0, 0, ac13_q(alt), &mb_bds60(Some(200 + t), Some(250 + t), Some(150 + t), Some(t), Some(t + 1)), a),
        "DF20:empty" => df20_21(20, 0, 0, 0, ac13_q(alt), &[0u8; 7], a),
        "DF21:20" => df20_21(21, 0, 0, 0, sq, &mb_bds20(&cs), a),
        "DF21:50" => df20_21(21, 0, 0, 0, sq, &mb_bds50(Some(t + 1), Some(101 + t), Some(201 + t), Some(t + 1), Some(201 + t)), a),
        "DF21:60" => df20_21(21, 0, 0, 0, sq, &mb_bds60(Some(201 + t), Some(251 + t), Some(151 + t), Some(t + 1), Some(t + 2)), a),
        // payload of the repository's test_bds5060_no65: accepted as BDS 5,0 and BDS 6,0 at once
        "DF21:50+60" => df20_21(21, 0, 0, 0, sq, &[0xff, 0xfb, 0x23, 0x28, 0x60, 0x04, 0xa7], a),
        "DF20:50+60" => df20_21(20, 0, 0, 0, ac13_q(alt), &[0xff, 0xfb, 0x23, 0x28, 0x60, 0x04, 0xa7], a),
        "DF19" => df19(0, t as u8),
        "DF24" => df24(0, 1, &[t as u8; 10], a),
        _ => return None,
    };
    let mut msg = Message::try_from(frame.as_slice()).ok()?;
    if kind.ends_with("+pos") {
        // what decode_position attaches in the main loop
        let (lat, lon) = (40.0 + t as f64 * 0.125, -3.0 - t as f64 * 0.25);
        let me = match &mut msg.df {
            DF::ExtendedSquitterADSB(adsb) => Some(&mut adsb.message),
            DF::ExtendedSquitterTisB { cf, .. } => Some(&mut cf.me),
            _ => None,
        };
        match me {
            Some(ME::BDS05(p)) => {
                p.latitude = Some(lat);
                p.longitude = Some(lon);
            }
            Some(ME::BDS06(p)) => {
                p.latitude = Some(lat);
                p.longitude = Some(lon);
            }
            _ => {}
        }
    }
    Some(msg)
}

pub struct Rec {
    pub msg: Message,
    pub ts: f64,
    pub shown: Option<String>,
    /// every leaf value of the record's JSON (before and after the update), normalised
    pub leaves: BTreeSet<String>,
    /// the record's message as JSON after `update_snapshot` on a FRESH table (no history)
    pub solo: String,
}

/// C07 mode of this module (see `run_c07`): histories are judged by "the record that is written does not depend on
/// what was received before" instead of by the table
pub static C07_MODE: std::sync::atomic::AtomicBool = std::sync::atomic::AtomicBool::new(false);

pub fn solo_of(msg: &Message, ts: f64) -> String {
    let mut tm = TimedMessage { timestamp: ts, frame: vec![], message: Some(msg.clone()), metadata: vec![], decode_time: None, ..Default::default() };
    let app = tokio::sync::Mutex::new(Jet1090::default());
    let db = BTreeMap::new();
    futures::executor::block_on(update_snapshot(&app, &mut tm, &db));
    serde_json::to_string(&tm.message).unwrap_or_else(|e| format!("serialisation failed: {e}"))
}

fn norm(v: &Value) -> Option<String> {
    match v {
        Value::Number(n) => n.as_f64().map(|f| format!("{f:.6}")),
        Value::String(s) => Some(format!("s:{s}")),
        _ => None,
    }
}

fn leaves(v: &Value, out: &mut BTreeSet<String>) {
    match v {
        Value::Object(m) => m.values().for_each(|x| leaves(x, out)),
        Value::Array(a) => a.iter().for_each(|x| leaves(x, out)),
        other => {
            if let Some(s) = norm(other) {
                out.insert(s);
            }
        }
    }
}

fn timed(r: &Rec, serial: u64) -> TimedMessage {
    TimedMessage {
        timestamp: r.ts,
        frame: vec![],
        message: Some(r.msg.clone()),
        metadata: vec![SensorMetadata { system_timestamp: r.ts, gnss_timestamp: None, nanoseconds: None, rssi: None, serial, name: None, ..Default::default() }],
        decode_time: None,
        ..Default::default()
    }
}

/// Replay records on a fresh real table the way the decoder loop of `main()` does for every record - `update_snapshot`,
/// then (history is kept by default) `store_history` with the record as it was handed on; returns icao24 -> serialised
/// current snapshot, with the stored history of the entry (time stamp, message JSON) under `"~hist"`
pub fn run_table(recs: &[&Rec]) -> Result<BTreeMap<String, Value>, String> {
    guarded(|| {
        let app = std::sync::Arc::new(tokio::sync::Mutex::new(Jet1090::default()));
        let db = BTreeMap::new();
        for r in recs {
            let mut m = timed(r, 7);
            futures::executor::block_on(update_snapshot(&app, &mut m, &db));
            let handed_on = TimedMessage { timestamp: m.timestamp, frame: m.frame.clone(), message: m.message.take(), metadata: m.metadata.clone(), decode_time: None, ..Default::default() };
            futures::executor::block_on(store_history(&app, handed_on, &db));
        }
        // what the REST handlers serve for this table (the real web::all / web::track on the same mutex)
        let web = web_views(&app, recs);
        let g = app.try_lock().expect("table is free");
        let mut out: BTreeMap<String, Value> = g
            .state_vectors
            .iter()
            .map(|(k, sv)| {
                let mut v = serde_json::to_value(&sv.cur).expect("snapshot serialises");
                let hist: Vec<Value> = sv.hist.iter().map(|h| json!([h.timestamp, serde_json::to_string(&h.message).unwrap_or_else(|e| format!("serialisation failed: {e}"))])).collect();
                if let Some(o) = v.as_object_mut() {
                    o.insert("~hist".into(), Value::Array(hist));
                }
                (k.clone(), v)
            })
            .collect();
        if let Err(what) = web.and_then(|w| w.compare(&g)) {
            out.insert("~web".into(), json!(what));
        }
        out
    })
}

/// Bodies served by the real `web::all` and `web::track` (no query time, and a query time in the middle of the history)
struct WebViews {
    all: String,
    /// (key asked for, since, body)
    tracks: Vec<(String, Option<f64>, String)>,
}

fn body_of(reply: warp::reply::Json) -> Result<String, String> {
    use warp::Reply;
    let resp = reply.into_response();
    if resp.status() != warp::http::StatusCode::OK {
        return Err(format!("status {}", resp.status()));
    }
    let bytes = futures::executor::block_on(warp::hyper::body::to_bytes(resp.into_body())).map_err(|e| format!("body: {e}"))?;
    String::from_utf8(bytes.to_vec()).map_err(|e| format!("body is not UTF-8: {e}"))
}

fn web_views(app: &std::sync::Arc<tokio::sync::Mutex<Jet1090>>, recs: &[&Rec]) -> Result<WebViews, String> {
    let all = body_of(futures::executor::block_on(crate::web::all(app)).map_err(|_| "infallible".to_string())?)?;
    let mut keys: BTreeSet<String> = recs.iter().filter_map(|r| r.shown.clone()).collect();
    // addresses that are not in the table: another spelling of a shown one, and one never seen
    if let Some(k) = keys.iter().next().cloned() {
        keys.insert(k.to_uppercase());
        keys.insert(k.trim_start_matches('0').to_string());
    }
    keys.insert("abcdef".into());
    if keys.len() > 8 {
        // large fleets: the first, the last and four more
        let v: Vec<String> = keys.iter().cloned().collect();
        keys = [0, 1, v.len() / 3, v.len() / 2, v.len() - 2, v.len() - 1].iter().map(|i| v[*i].clone()).collect();
    }
    let mid = if recs.is_empty() { 0.0 } else { recs[recs.len() / 2].ts };
    let mut tracks = vec![];
    for k in keys {
        for since in [None, Some(mid)] {
            let q: crate::web::TrackQuery = serde_json::from_value(json!({"icao24": k, "since": since})).map_err(|e| format!("TrackQuery: {e}"))?;
            let body = body_of(futures::executor::block_on(crate::web::track(app, q)).map_err(|_| "infallible".to_string())?)?;
            tracks.push((k.clone(), since, body));
        }
    }
    Ok(WebViews { all, tracks })
}

impl WebViews {
    /// The views must be exactly the table: /all = the current snapshots in key order, /track = the stored history of
    /// that key (strictly later than `since`), `null` for a key that is not in the table.
    fn compare(&self, g: &Jet1090) -> Result<(), String> {
        let direct = serde_json::to_string(&g.state_vectors.values().map(|sv| &sv.cur).collect::<Vec<_>>()).map_err(|e| e.to_string())?;
        if direct != self.all {
            return Err(format!("all: /all serves {} but the table holds {}", &self.all[..self.all.len().min(300)], &direct[..direct.len().min(300)]));
        }
        for (k, since, body) in &self.tracks {
            // another spelling of an address (upper case, leading zeros dropped) may be answered with `null` or with
            // the entry of that address - never with anything else
            let canon = u32::from_str_radix(k, 16).ok().map(|a| format!("{a:06x}")).unwrap_or_default();
            if g.state_vectors.get(k).is_none() && body == "null" {
                continue;
            }
            let expect = match (g.state_vectors.get(k).or_else(|| g.state_vectors.get(&canon)), since) {
                (None, _) => "null".to_string(),
                (Some(sv), None) => serde_json::to_string(&sv.hist).map_err(|e| e.to_string())?,
                (Some(sv), Some(t)) => serde_json::to_string(&sv.hist.iter().filter(|m| m.timestamp > *t).collect::<Vec<_>>()).map_err(|e| e.to_string())?,
            };
            if &expect != body {
                return Err(format!("track: /track?icao24={k}{} serves {} but the table holds {}", since.map(|t| format!("&since={t}")).unwrap_or_default(), &body[..body.len().min(300)], &expect[..expect.len().min(300)]));
            }
        }
        Ok(())
    }
}

const PROVENANCE_FIELDS: [&str; 15] = ["latitude", "longitude", "altitude", "selected_altitude", "groundspeed", "vertical_rate", "track", "ias", "tas", "mach", "roll", "heading", "squawk", "callsign", "nacp"];

/// Prepared record of (aircraft index, kind index) at history position `pos`
pub struct Pool {
    pub addrs: [u32; 3],
    pub kinds: Vec<&'static str>,
    /// [aircraft][kind][pos]
    pub recs: Vec<Vec<Vec<Option<Rec>>>>,
}

pub fn pool(kinds: Vec<&'static str>, depth: usize, equal_stamps: bool) -> Pool {
    pool_for(ADDRS, kinds, depth, equal_stamps)
}

pub fn pool_for(addrs: [u32; 3], kinds: Vec<&'static str>, depth: usize, equal_stamps: bool) -> Pool {
    let mut recs = Vec::new();
    for (ai, a) in addrs.iter().enumerate() {
        let mut per_kind = Vec::new();
        for k in &kinds {
            let mut per_pos = Vec::new();
            for pos in 0..depth {
                let t = 10 * (ai as u32 + 1) + pos as u32;
                let ts = if equal_stamps { 1000.5 } else { 1000.25 + 3.0 * pos as f64 };
                per_pos.push(make(k, *a, t).map(|msg| {
                    let mut lv = BTreeSet::new();
                    let mut tm = TimedMessage { timestamp: ts, frame: vec![], message: Some(msg.clone()), metadata: vec![], decode_time: None, ..Default::default() };
                    let v = serde_json::to_value(&tm).unwrap_or(Value::Null);
                    let shown = v.get("icao24").and_then(|x| x.as_str()).map(String::from);
                    leaves(&v, &mut lv);
                    // the update may edit the record (BDS 5,0 / 6,0 clash): what is shown afterwards counts too
                    let app = tokio::sync::Mutex::new(Jet1090::default());
                    let db = BTreeMap::new();
                    futures::executor::block_on(update_snapshot(&app, &mut tm, &db));
                    leaves(&serde_json::to_value(&tm).unwrap_or(Value::Null), &mut lv);
                    let solo = serde_json::to_string(&tm.message).unwrap_or_else(|e| format!("serialisation failed: {e}"));
                    Rec { msg, ts, shown, leaves: lv, solo }
                }));
            }
            per_kind.push(per_pos);
        }
        recs.push(per_kind);
    }
    Pool { addrs, kinds, recs }
}

fn hist_json(p: &Pool, hist: &[(usize, usize)], equal: bool) -> Value {
    json!({"equal_stamps": equal, "kinds": if p.kinds.len() == kinds().len() { "all" } else { "core" }, "history": hist.iter().map(|(a, k)| json!([format!("{:06x}", p.addrs[*a]), p.kinds[*k]])).collect::<Vec<_>>()})
}

/// Judge one history. Returns number of table entries (for the outcome histogram).
pub fn check(p: &Pool, hist: &[(usize, usize)], equal: bool, rep: &Report) -> usize {
    let recs: Vec<&Rec> = hist.iter().enumerate().filter_map(|(pos, (a, k))| p.recs[*a][*k][pos].as_ref()).collect();
    if recs.len() != hist.len() {
        rep.violation("harness:record", "a reference record is not accepted by the decoder".into(), hist_json(p, hist, equal));
        return 0;
    }
    judge_recs(&recs, &hist_json(p, hist, equal), rep)
}

/// A long history: `pattern` (pairs of aircraft and kind) repeated `times` times, time advancing by 3 s per record.
/// Record values cycle through the pool's positions.
pub fn check_periodic(p: &Pool, pattern: &[(usize, usize)], times: usize, rep: &Report) -> usize {
    let depth = p.recs[0][0].len();
    let mut owned: Vec<Rec> = Vec::with_capacity(pattern.len() * times);
    for i in 0..pattern.len() * times {
        let (a, k) = pattern[i % pattern.len()];
        let Some(r) = p.recs[a][k][i % depth].as_ref() else {
            rep.violation("harness:record", "a reference record is not accepted by the decoder".into(), json!({}));
            return 0;
        };
        owned.push(Rec { msg: r.msg.clone(), ts: 1000.25 + 3.0 * i as f64, shown: r.shown.clone(), leaves: r.leaves.clone(), solo: r.solo.clone() });
    }
    let wit = json!({"periodic": true, "times": times, "kinds": if p.kinds.len() == kinds().len() { "all" } else { "core" }, "pattern": pattern.iter().map(|(a, k)| json!([format!("{:06x}", p.addrs[*a]), p.kinds[*k]])).collect::<Vec<_>>()});
    judge_recs(&owned.iter().collect::<Vec<_>>(), &wit, rep)
}

/// A short history whose records are `gaps[i]` seconds apart (gaps[0] is the offset of the first record): silences
/// of every order of magnitude between the records of one aircraft and between aircraft.
pub fn check_gaps(p: &Pool, hist: &[(usize, usize)], gaps: &[f64], rep: &Report) -> usize {
    let depth = p.recs[0][0].len();
    let mut owned: Vec<Rec> = Vec::with_capacity(hist.len());
    let mut ts = 1000.25;
    for (i, (a, k)) in hist.iter().enumerate() {
        let Some(r) = p.recs[*a][*k][i % depth].as_ref() else {
            rep.violation("harness:record", "a reference record is not accepted by the decoder".into(), json!({}));
            return 0;
        };
        ts += gaps[i];
        owned.push(Rec { msg: r.msg.clone(), ts, shown: r.shown.clone(), leaves: r.leaves.clone(), solo: r.solo.clone() });
    }
    let wit = json!({"gaps": gaps, "kinds": if p.kinds.len() == kinds().len() { "all" } else { "core" }, "history": hist.iter().map(|(a, k)| json!([format!("{:06x}", p.addrs[*a]), p.kinds[*k]])).collect::<Vec<_>>()});
    judge_recs(&owned.iter().collect::<Vec<_>>(), &wit, rep)
}

pub const GAPS: [f64; 14] = [0.0, 0.5, 3.0, 60.0, 600.0, 3599.5, 3600.0, 3601.0, 7200.0, 86400.0, 1.0e6, 1.0e9, -2.5, -700.0];

/// n distinct aircraft each seen once, then each seen again in the same order, then the first one a third time
pub fn fleet_history(n: usize, kind: &str) -> Vec<Rec> {
    let mut owned: Vec<Rec> = Vec::new();
    let mut add = |i: usize, pos: usize, owned: &mut Vec<Rec>| {
        let a = 0x100000 + 0x000101 * i as u32;
        if let Some(msg) = make(kind, a, 10 + (i % 7) as u32) {
            let ts = 1000.25 + pos as f64;
            let tm = TimedMessage { timestamp: ts, frame: vec![], message: Some(msg.clone()), metadata: vec![], decode_time: None, ..Default::default() };
            let v = serde_json::to_value(&tm).unwrap_or(Value::Null);
            let mut lv = BTreeSet::new();
            leaves(&v, &mut lv);
            let solo = solo_of(&msg, ts);
            owned.push(Rec { msg, ts, shown: v.get("icao24").and_then(|x| x.as_str()).map(String::from), leaves: lv, solo });
        }
    };
    for i in 0..n {
        add(i, i, &mut owned);
    }
    for i in 0..n {
        add(i, n + i, &mut owned);
    }
    add(0, 2 * n, &mut owned);
    owned
}

/// C07: "a timed record keeps the input frame, so decoding that frame again gives the same fields" - the record
/// handed on by the decoder loop (update_snapshot may edit it) must be the one a fresh process would write for the
/// same reception, whatever was received before.
fn judge_records_c07(recs: &[&Rec], witness: &Value, rep: &Report) -> usize {
    let res = guarded(|| {
        let app = tokio::sync::Mutex::new(Jet1090::default());
        let db = BTreeMap::new();
        let mut diffs = vec![];
        for (i, r) in recs.iter().enumerate() {
            let mut m = timed(r, 7);
            futures::executor::block_on(update_snapshot(&app, &mut m, &db));
            let now = serde_json::to_string(&m.message).unwrap_or_else(|e| format!("serialisation failed: {e}"));
            if now != r.solo {
                diffs.push((i, now, r.solo.clone()));
            }
        }
        diffs
    });
    let mut w = witness.clone();
    if let Some(o) = w.as_object_mut() {
        o.insert("engine".into(), json!("jetdrv"));
    }
    match res {
        Err(e) => rep.violation(&format!("table:panic:{}", panic_class(&e)), format!("update_snapshot panicked: {e}"), w),
        Ok(diffs) => {
            if let Some((i, now, solo)) = diffs.first() {
                let kind = serde_json::from_str::<Value>(solo).ok().and_then(|v| v.get("df").map(|d| d.to_string())).unwrap_or_default().replace('"', "");
                rep.violation(&format!("record-depends-on-history:DF{kind}"), format!("record {i} of the history is handed on as {} but the same reception alone is handed on as {}", &now[..now.len().min(300)], &solo[..solo.len().min(300)]), w);
            }
        }
    }
    recs.len()
}

fn judge_recs(recs: &[&Rec], witness: &Value, rep: &Report) -> usize {
    if C07_MODE.load(Ordering::Relaxed) {
        return judge_records_c07(recs, witness, rep);
    }
    let table = match run_table(recs) {
        Ok(t) => t,
        Err(e) => {
            rep.violation(&format!("panic:{}", panic_class(&e)), format!("update_snapshot panicked: {e}"), witness.clone());
            return 0;
        }
    };
    let mut viol = |class: String, what: String| rep.violation(&class, what, witness.clone());
    // reference table
    let mut expect: BTreeMap<String, Vec<&Rec>> = BTreeMap::new();
    for r in recs.iter().copied() {
        if let Some(k) = &r.shown {
            expect.entry(k.clone()).or_default().push(r);
        }
    }
    if let Some(w) = table.get("~web").and_then(|w| w.as_str()) {
        let kind = w.split(':').next().unwrap_or("view").to_string();
        viol(format!("web:{kind}"), format!("the REST view differs from the table: {w}"));
    }
    for k in table.keys().filter(|k| !k.starts_with('~')) {
        if !expect.contains_key(k) {
            viol("keys:unexpected-entry".into(), format!("the table has an entry {k} but no record shows that address"));
        }
    }
    for (k, own) in &expect {
        let Some(e) = table.get(k) else {
            viol("keys:missing-entry".into(), format!("no table entry for {k} although {} record(s) show it", own.len()));
            continue;
        };
        if e["icao24"].as_str() != Some(k.as_str()) {
            viol("keys:entry-under-wrong-key".into(), format!("entry stored under {k} says icao24={}", e["icao24"]));
        }
        if e["count"].as_u64() != Some(own.len() as u64) {
            viol("count".into(), format!("{k}: count={} but {} of its records were processed", e["count"], own.len()));
        }
        if e["firstseen"].as_u64() != Some(own[0].ts as u64) {
            viol("firstseen".into(), format!("{k}: firstseen={} but its first record is at {}", e["firstseen"], own[0].ts));
        }
        if e["lastseen"].as_u64() != Some(own[own.len() - 1].ts as u64) {
            viol("lastseen".into(), format!("{k}: lastseen={} but its latest record is at {}", e["lastseen"], own[own.len() - 1].ts));
        }
        for f in PROVENANCE_FIELDS {
            if let Some(s) = e.get(f).and_then(norm) {
                if !own.iter().any(|r| r.leaves.contains(&s)) {
                    let foreign = recs.iter().any(|r| r.leaves.contains(&s));
                    viol(format!("provenance:{f}"), format!("{k}: {f}={} was not decoded from any of its own records{}", e[f], if foreign { " (it appears in another aircraft's record)" } else { "" }));
                }
            }
        }
        // the stored history of the entry (what /track serves): every element is one of the aircraft's own records
        if let Some(hist) = e.get("~hist").and_then(|h| h.as_array()) {
            for h in hist {
                let (ts, js) = (h[0].as_f64().unwrap_or(f64::NAN), h[1].as_str().unwrap_or(""));
                if !own.iter().any(|r| r.ts == ts && r.solo == js) {
                    let foreign = recs.iter().any(|r| r.solo == js);
                    viol("provenance:history".into(), format!("{k}: the stored history holds a record (t={ts}) that is none of its own records{}: {}", if foreign { " (it is another aircraft's record)" } else { "" }, &js[..js.len().min(200)]));
                    break;
                }
            }
            if hist.len() > own.len() {
                viol("history:more-than-records".into(), format!("{k}: {} stored history elements for {} records", hist.len(), own.len()));
            }
        }
        // projection equality: the entry after X's own records alone
        if expect.len() > 1 || recs.len() > own.len() {
            match run_table(own) {
                Ok(solo) => {
                    if solo.get(k) != Some(e) {
                        let field = match (solo.get(k), e) {
                            (Some(Value::Object(a)), Value::Object(b)) => a.keys().find(|f| a.get(*f) != b.get(*f)).cloned().unwrap_or_default(),
                            _ => "entry".to_string(),
                        };
                        viol(format!("projection:{field}"), format!("{k}: entry differs from the replay of its own records alone in `{field}`: interleaved {} vs solo {}", e.get(&field).unwrap_or(&Value::Null), solo.get(k).and_then(|s| s.get(&field)).unwrap_or(&Value::Null)));
                    }
                }
                Err(p2) => viol(format!("panic:{}", panic_class(&p2)), format!("update_snapshot panicked in the solo replay: {p2}")),
            }
        }
    }
    table.keys().filter(|k| !k.starts_with('~')).count()
}

/// All histories of exactly `len` records with aircraft symmetry reduction
/// (a new aircraft is always the lowest unused one).
fn explore(p: &Pool, len: usize, equal: bool, ctx: &Ctx, rep: &Report, oc: &std::sync::Mutex<[u64; 5]>) -> (u64, u64) {
    let nk = p.kinds.len();
    let total = AtomicU64::new(0);
    let multi = AtomicU64::new(0);
    // shard on the first record's kind and the second record (aircraft, kind)
    let shards: Vec<Vec<(usize, usize)>> = {
        let mut v = Vec::new();
        for k0 in 0..nk {
            if len == 1 {
                v.push(vec![(0, k0)]);
            } else {
                for a1 in 0..2 {
                    for k1 in 0..nk {
                        v.push(vec![(0, k0), (a1, k1)]);
                    }
                }
            }
        }
        v
    };
    par_items(ctx.threads, shards.len(), |si| {
        let mut hist = shards[si].clone();
        let mut cnt = 0u64;
        let mut mul = 0u64;
        let mut local = [0u64; 5];
        fn rec(p: &Pool, hist: &mut Vec<(usize, usize)>, len: usize, equal: bool, rep: &Report, cnt: &mut u64, mul: &mut u64, local: &mut [u64; 5]) {
            if stopped() {
                return;
            }
            if hist.len() == len {
                let n = check(p, hist, equal, rep);
                local[n.min(4)] += 1;
                *cnt += 1;
                if hist.iter().any(|(a, _)| *a != 0) {
                    *mul += 1;
                }
                return;
            }
            let used = hist.iter().map(|(a, _)| *a).max().unwrap_or(0);
            for a in 0..=(used + 1).min(ADDRS.len() - 1) {
                for k in 0..p.kinds.len() {
                    hist.push((a, k));
                    rec(p, hist, len, equal, rep, cnt, mul, local);
                    hist.pop();
                }
            }
        }
        rec(p, &mut hist, len, equal, rep, &mut cnt, &mut mul, &mut local);
        total.fetch_add(cnt, Ordering::Relaxed);
        multi.fetch_add(mul, Ordering::Relaxed);
        let mut g = oc.lock().unwrap();
        for i in 0..5 {
            g[i] += local[i];
        }
    });
    (total.load(Ordering::Relaxed), multi.load(Ordering::Relaxed))
}

/// C07 through the table code: every history of the C12 bound, judged by `judge_records_c07`
pub fn run_c07(ctx: &Ctx, rep: &Report) {
    C07_MODE.store(true, Ordering::Relaxed);
    rep.set_rule("all record histories up to a depth over (aircraft x message kind) through the real update_snapshot; after every update the record that would be written is compared with the record a fresh table hands on for the same reception");
    let d_all = if ctx.thorough() { 4 } else { 3 };
    let oc = std::sync::Mutex::new([0u64; 5]);
    let all = pool(kinds(), d_all, false);
    let mut total = 0;
    for len in 1..=d_all {
        total += explore(&all, len, false, ctx, rep, &oc).0;
    }
    rep.part("jet1090 update_snapshot: records handed on do not depend on the history (all kinds)", total, json!({"kinds": all.kinds.len(), "aircraft": ADDRS.len(), "depth": d_all}));
    let edge = pool_for(ADDRS_EDGE, kinds(), d_all - 1, false);
    let mut te = 0;
    for len in 1..d_all {
        te += explore(&edge, len, false, ctx, rep, &oc).0;
    }
    rep.part("jet1090 update_snapshot: the same with boundary addresses", te, json!({"depth": d_all - 1}));
    let core = pool(core_kinds(), 10, false);
    let n = core.kinds.len();
    let mut tp = 0;
    for k0 in 0..n {
        for k1 in 0..n {
            for times in [6usize, 40] {
                check_periodic(&core, &[(0, k0), (0, k1)], times, rep);
                check_periodic(&core, &[(0, k0), (1, k1)], times, rep);
                tp += 2;
            }
        }
    }
    rep.part("jet1090 update_snapshot: periodic long histories", tp, json!({"pattern_len": 2, "times": [6, 40]}));
    total += te + tp;
    rep.eval(total);
    rep.trans(total);
    rep.state(total);
    rep.outcome("histories", total);
    rep.set_bound(&format!("update_snapshot histories: depth {d_all} over {} kinds x 3 aircraft, boundary addresses to depth {}, periodic pairs x 6 / 40", all.kinds.len(), d_all - 1));
}

pub fn replay_c07(w: &Value, rep: &Report) {
    C07_MODE.store(true, Ordering::Relaxed);
    replay(w, rep)
}

pub fn run(ctx: &Ctx, rep: &Report) {
    rep.set_rule("all record histories up to a depth over (aircraft x message kind), a new aircraft always being the lowest unused one; non-trivial = histories with records of at least two aircraft");
    rep.assume("aircraft are interchangeable (symmetry reduction): the table code never branches on the address value");
    rep.assume("positions attached to BDS 0,5 / 0,6 records are set by the harness the way decode_position does in the main loop");
    let (d_all, d_core) = if ctx.thorough() { (4, 5) } else { (3, 4) };
    let oc = std::sync::Mutex::new([0u64; 5]);
    let mut total = 0;
    let mut nontriv = 0;
    let all = pool(kinds(), d_all, false);
    // every kind must be decodable, and every address-carrying kind must show its address
    for (ki, k) in all.kinds.iter().enumerate() {
        match &all.recs[0][ki][0] {
            None => rep.violation("harness:record", format!("reference frame of kind {k} is rejected by the decoder"), json!({"kind": k})),
            Some(r) => {
                let expect_addr = !matches!(*k, "DF19" | "DF24");
                if expect_addr != r.shown.is_some() {
                    rep.violation("harness:shown-address", format!("kind {k}: JSON icao24 is {:?}", r.shown), json!({"kind": k}));
                }
            }
        }
    }
    // vacuity guard: which table fields each kind sets when replayed alone
    let mut effects = serde_json::Map::new();
    let mut fields_touched: BTreeSet<String> = BTreeSet::new();
    for (ki, k) in all.kinds.iter().enumerate() {
        if let Some(r) = &all.recs[0][ki][0] {
            if let Ok(t) = run_table(&[r]) {
                let set: Vec<String> = t.values().next().and_then(|e| e.as_object()).map(|o| o.iter().filter(|(f, v)| !v.is_null() && !matches!(f.as_str(), "icao24" | "firstseen" | "lastseen" | "count" | "metadata" | "registration" | "~hist")).map(|(f, _)| f.clone()).collect()).unwrap_or_default();
                fields_touched.extend(set.iter().cloned());
                effects.insert(k.to_string(), json!(set));
            }
        }
    }
    rep.note("fields_set_by_kind", Value::Object(effects));
    for f in PROVENANCE_FIELDS {
        if !fields_touched.contains(f) {
            rep.not_exhaustive(&format!("no record kind of the alphabet sets the table field `{f}`"));
        }
    }
    for len in 1..=d_all {
        let (t, m) = explore(&all, len, false, ctx, rep, &oc);
        total += t;
        nontriv += m;
    }
    rep.part("all kinds", total, json!({"kinds": all.kinds.len(), "aircraft": ADDRS.len(), "depth": d_all}));
    // the same exploration one step shallower with the boundary addresses 000000 / ffffff / 000001
    let edge = pool_for(ADDRS_EDGE, kinds(), d_all - 1, false);
    let mut te = 0;
    for len in 1..d_all {
        let (t, m) = explore(&edge, len, false, ctx, rep, &oc);
        te += t;
        nontriv += m;
    }
    total += te;
    rep.part("all kinds, boundary addresses", te, json!({"addresses": ["000000", "ffffff", "000001"], "depth": d_all - 1}));
    let core = pool(core_kinds(), d_core, false);
    let mut t2 = 0;
    for len in (d_all + 1)..=d_core {
        let (t, m) = explore(&core, len, false, ctx, rep, &oc);
        t2 += t;
        nontriv += m;
    }
    rep.part("core kinds, deeper", t2, json!({"kinds": core.kinds.len(), "depth": d_core}));
    // long histories: every pattern of one or two (aircraft, core kind) records, repeated 6 / 20 / 70 / 300 times
    // (counters, saturation, accumulating state); patterns of three records repeated 6 and 20 times
    {
        let per = pool(core_kinds(), 10, false);
        let nk = per.kinds.len();
        let mut pats: Vec<(Vec<(usize, usize)>, Vec<usize>)> = Vec::new();
        for k0 in 0..nk {
            pats.push((vec![(0, k0)], vec![6, 20, 70, 300]));
            for a1 in 0..2 {
                for k1 in 0..nk {
                    pats.push((vec![(0, k0), (a1, k1)], vec![6, 20, 70, 300]));
                    if ctx.thorough() || (k0 + k1) % 3 == 0 {
                        for a2 in 0..=(a1 + 1) {
                            for k2 in 0..nk {
                                pats.push((vec![(0, k0), (a1, k1), (a2, k2)], vec![6, 20]));
                            }
                        }
                    }
                }
            }
        }
        let cnt = AtomicU64::new(0);
        par_items(ctx.threads, pats.len(), |i| {
            let (pat, times) = &pats[i];
            for t in times {
                if stopped() {
                    return;
                }
                check_periodic(&per, pat, *t, rep);
                cnt.fetch_add(1, Ordering::Relaxed);
            }
        });
        let c = cnt.load(Ordering::Relaxed);
        total += c;
        nontriv += c;
        rep.part("periodic long histories (patterns of 1-3 records repeated up to 300 times)", c, json!({"patterns": pats.len()}));
    }
    // silences: histories of two and three records over two aircraft and the core kinds, with every pair of gaps from
    // 0 s to 30 years between consecutive records (expiry rules, "new flight" heuristics, counters keyed by time)
    {
        let per = pool(core_kinds(), 3, false);
        let nk = per.kinds.len();
        let mut hists: Vec<Vec<(usize, usize)>> = Vec::new();
        for k0 in 0..nk {
            for a1 in 0..2 {
                for k1 in 0..nk {
                    hists.push(vec![(0, k0), (a1, k1)]);
                    for a2 in 0..2 {
                        for k2 in 0..nk {
                            if ctx.thorough() || (k0 + 2 * k1 + 3 * k2) % 4 == 0 {
                                hists.push(vec![(0, k0), (a1, k1), (a2, k2)]);
                            }
                        }
                    }
                }
            }
        }
        let cnt = AtomicU64::new(0);
        par_items(ctx.threads, hists.len(), |i| {
            let h = &hists[i];
            for g1 in GAPS {
                if h.len() == 2 {
                    check_gaps(&per, h, &[0.0, g1], rep);
                    cnt.fetch_add(1, Ordering::Relaxed);
                } else {
                    for g2 in GAPS {
                        check_gaps(&per, h, &[0.0, g1, g2], rep);
                        cnt.fetch_add(1, Ordering::Relaxed);
                    }
                }
                if stopped() {
                    return;
                }
            }
        });
        let c = cnt.load(Ordering::Relaxed);
        total += c;
        nontriv += c;
        rep.part("silences: histories of 2-3 records x every pair of gaps from 0 s to 1e9 s", c, json!({"histories": hists.len(), "gaps_s": GAPS}));
    }
    // large fleets: N distinct aircraft each seen once (DF11, DF4 or an airborne position), then each seen again in
    // the same order, then the first one a third time (caps on the table size, eviction)
    {
        let mut c = 0u64;
        for n in [5usize, 64, 300, 1100, 2100] {
            if !ctx.thorough() && n > 1100 {
                continue;
            }
            for kind in ["DF11", "DF4", "DF17:05+pos"] {
                let owned = fleet_history(n, kind);
                let wit = json!({"fleet": n, "kind": kind});
                judge_recs(&owned.iter().collect::<Vec<_>>(), &wit, rep);
                c += 1;
            }
        }
        total += c;
        nontriv += c;
        rep.part("large fleets (up to 1100 aircraft, thorough 2100)", c, json!({}));
    }
    let eq = pool(core_kinds(), d_all, true);
    let mut t3 = 0;
    for len in 2..=d_all {
        let (t, m) = explore(&eq, len, true, ctx, rep, &oc);
        t3 += t;
        nontriv += m;
    }
    rep.part("core kinds, equal timestamps", t3, json!({"depth": d_all}));
    total += t2 + t3;
    let g = oc.lock().unwrap();
    for (i, c) in g.iter().enumerate() {
        if *c > 0 {
            rep.outcome(&format!("{i} table entries"), *c);
        }
    }
    let sample_hist = vec![(0usize, 5usize), (1, 5), (0, 8)];
    rep.sample(hist_json(&all, &sample_hist, false));
    if let Ok(t) = run_table(&sample_hist.iter().enumerate().filter_map(|(pos, (a, k))| all.recs[*a][*k][pos].as_ref()).collect::<Vec<_>>()) {
        rep.sample(json!({"table_after_sample": t}));
    }
    rep.eval(total);
    rep.trans(total);
    rep.state(total);
    rep.nontriv(nontriv);
    rep.set_bound(&format!("depth <= {d_all} over {} kinds x 3 aircraft; depth <= {d_core} over {} core kinds; equal-timestamp variant to depth {d_all}", all.kinds.len(), core.kinds.len()));
}

pub fn replay(w: &Value, rep: &Report) {
    if let Some(n) = w.get("fleet").and_then(|x| x.as_u64()) {
        let owned = fleet_history(n as usize, w["kind"].as_str().unwrap_or("DF11"));
        judge_recs(&owned.iter().collect::<Vec<_>>(), w, rep);
        rep.trans(1);
        rep.state(1);
        rep.sample(w.clone());
        rep.outcome("replayed", 1);
        return;
    }
    if let Some(g) = w.get("gaps").and_then(|x| x.as_array()) {
        let ks = if w["kinds"].as_str() == Some("all") { kinds() } else { core_kinds() };
        let per = pool(ks, 3, false);
        let gaps: Vec<f64> = g.iter().map(|x| x.as_f64().unwrap_or(0.0)).collect();
        let hist: Vec<(usize, usize)> = w["history"]
            .as_array()
            .map(|a| a.iter().filter_map(|x| Some((per.addrs.iter().position(|y| Some(format!("{y:06x}").as_str()) == x[0].as_str())?, per.kinds.iter().position(|y| Some(*y) == x[1].as_str())?))).collect())
            .unwrap_or_default();
        if hist.len() == gaps.len() {
            check_gaps(&per, &hist, &gaps, rep);
        }
        rep.trans(1);
        rep.state(1);
        rep.sample(w.clone());
        rep.outcome("replayed", 1);
        return;
    }
    if w["periodic"].as_bool() == Some(true) {
        let per = pool(core_kinds(), 10, false);
        let pat: Vec<(usize, usize)> = w["pattern"]
            .as_array()
            .map(|a| a.iter().filter_map(|x| Some((per.addrs.iter().position(|y| Some(format!("{y:06x}").as_str()) == x[0].as_str())?, per.kinds.iter().position(|y| Some(*y) == x[1].as_str())?))).collect())
            .unwrap_or_default();
        check_periodic(&per, &pat, w["times"].as_u64().unwrap_or(1) as usize, rep);
        rep.trans(1);
        rep.state(1);
        rep.sample(w.clone());
        rep.outcome("replayed", 1);
        return;
    }
    let equal = w["equal_stamps"].as_bool().unwrap_or(false);
    let ks = if w["kinds"].as_str() == Some("core") { core_kinds() } else { kinds() };
    let h: Vec<(String, String)> = w["history"].as_array().map(|a| a.iter().map(|x| (x[0].as_str().unwrap_or("").to_string(), x[1].as_str().unwrap_or("").to_string())).collect()).unwrap_or_default();
    let edge = h.iter().any(|(a, _)| ADDRS_EDGE.iter().any(|x| format!("{x:06x}") == *a) && !ADDRS.iter().any(|x| format!("{x:06x}") == *a));
    let p = pool_for(if edge { ADDRS_EDGE } else { ADDRS }, ks, h.len().max(1), equal);
    let hist: Vec<(usize, usize)> = h
        .iter()
        .filter_map(|(a, k)| {
            let ai = p.addrs.iter().position(|x| format!("{x:06x}") == *a)?;
            let ki = p.kinds.iter().position(|x| x == k)?;
            Some((ai, ki))
        })
        .collect();
    if hist.len() != h.len() {
        eprintln!("replay: unknown aircraft or kind in {w}");
    }
    check(&p, &hist, equal, rep);
    rep.trans(1);
    rep.state(1);
    rep.sample(w.clone());
    rep.outcome("replayed", 1);
}

// C16 — source / reference strings: complete enumeration of a token grammar
// and of all short strings over a 14-symbol alphabet (incl. two multi-byte characters) through the real
// Source::from_str, Position::from_str and Source::serial.

use super::common::*;
use crate::source::{Address, AddressPath, Source, WebsocketPath};
use rs1090::decode::cpr::Position;
use serde_json::{json, Value};
use std::collections::{BTreeMap, BTreeSet};
use std::str::FromStr;

const SCHEMES: [&str; 9] = ["", "tcp://", "udp://", "ws://", "rtlsdr:", "rtlsdr://", "http://", "TCP://", "wss://"];
const HOSTS: [&str; 8] = ["", "localhost", "1.2.3.4", "[::1]", "a_b", "h\u{e9}\u{e9}", "serial=00000001", "h h"];
const PORTS: [&str; 9] = ["", ":0", ":4003", ":65535", ":65536", ":abc", ":-1", ":", ":99999999999999999999"];
const PATHS: [&str; 4] = ["", "/", "/get", "/a/b"];
const SEPS: [&str; 3] = ["", "@", "?"];
const REFS_FULL: [&str; 17] = ["", "LFBO", "LHR", "43.3,1.35", " -34,18.6", "(", "[", "*", "a,b", "1,2,3", "\\", "\u{e9}", "1e400,0", "nan,nan", "x{99999}", "(?P<a>", "a{2,1}"];
const REFS_QUICK: [&str; 9] = ["", "LFBO", "43.3,1.35", "(", "*", "a,b", "\\", "nan,nan", "x{99999}"];
const SHORT_ALPHABET: [char; 14] = [':', '/', '@', '?', '1', 'a', '.', ',', '(', '[', '\\', '#', '\u{e9}', '\u{20ac}'];

fn describe(r: &Result<Source, String>) -> String {
    match r {
        Ok(s) => format!("Ok({:?}, ref={:?})", s.address, s.reference.map(|p| (p.latitude, p.longitude))),
        Err(e) => format!("Err({e})"),
    }
}

/// Parse one specification through the real parser; a panic is a violation.
fn parse(spec: &str, rep: &Report, outcomes: &mut BTreeMap<String, u64>) -> Option<Result<Source, String>> {
    rep.trans(1);
    match guarded(|| Source::from_str(spec)) {
        Ok(r) => {
            let k = match &r {
                Ok(s) => match &s.address {
                    Address::Tcp(_) => "ok:tcp",
                    Address::Udp(_) => "ok:udp",
                    Address::Websocket(_) => "ok:websocket",
                    Address::Rtlsdr(_) => "ok:rtlsdr",
                    Address::Sero(_) => "ok:sero",
                },
                Err(_) => "err",
            };
            *outcomes.entry(k.to_string()).or_insert(0) += 1;
            Some(r)
        }
        Err(p) => {
            *outcomes.entry("panic".to_string()).or_insert(0) += 1;
            rep.violation(
                &format!("panic:Source::from_str:{}:{}", last_panic_file(), panic_class(&p)),
                format!("Source::from_str({spec:?}) panicked at {}: {p}", last_panic_loc()),
                json!({"kind": "source", "spec": spec}),
            );
            None
        }
    }
}

fn parse_position(s: &str, rep: &Report, outcomes: &mut BTreeMap<String, u64>) -> Option<Result<Position, String>> {
    rep.trans(1);
    match guarded(|| Position::from_str(s)) {
        Ok(r) => {
            *outcomes.entry(if r.is_ok() { "position:ok" } else { "position:err" }.to_string()).or_insert(0) += 1;
            Some(r)
        }
        Err(p) => {
            *outcomes.entry("position:panic".to_string()).or_insert(0) += 1;
            rep.violation(
                &format!("panic:Position::from_str:{}:{}", last_panic_file(), panic_class(&p)),
                format!("Position::from_str({s:?}) panicked at {}: {p}", last_panic_loc()),
                json!({"kind": "position", "spec": s}),
            );
            None
        }
    }
}

/// Airports as the harness reads them from airports.json itself
struct Apt {
    icao: String,
    iata: String,
    lat: f64,
    lon: f64,
}

fn airports() -> Vec<Apt> {
    let repo = std::env::var("VERIF_REPO").unwrap_or("/repo".to_string());
    let text = std::fs::read_to_string(format!("{repo}/crates/rs1090/data/airports.json")).expect("airports.json");
    let v: Value = serde_json::from_str(&text).expect("airports.json parses");
    v.as_array()
        .expect("array")
        .iter()
        .map(|a| Apt {
            icao: a["icao"].as_str().unwrap_or("").to_string(),
            iata: a["iata"].as_str().unwrap_or("").to_string(),
            lat: a["lat"].as_f64().unwrap_or(f64::NAN),
            lon: a["lon"].as_f64().unwrap_or(f64::NAN),
        })
        .collect()
}

struct WellFormed {
    spec: String,
    expect: Address,
    /// documented TOML table forms of the same endpoint
    tables: Vec<String>,
    reference: Option<(f64, f64)>,
}

fn well_formed(apts: &[Apt]) -> Vec<WellFormed> {
    let lfbo = apts.iter().find(|a| a.icao == "LFBO").map(|a| (a.lat, a.lon));
    let eham = apts.iter().find(|a| a.icao == "EHAM").map(|a| (a.lat, a.lon));
    let refs: Vec<(String, Option<(f64, f64)>)> = vec![
        ("".to_string(), None),
        ("@LFBO".to_string(), lfbo),
        ("?LFBO".to_string(), lfbo),
        ("@EHAM".to_string(), eham),
        ("@43.3,1.35".to_string(), Some((43.3, 1.35))),
        ("?43.3,1.35".to_string(), Some((43.3, 1.35))),
        ("@-34,18.6".to_string(), Some((-34.0, 18.6))),
        ("@0,0".to_string(), Some((0.0, 0.0))),
        ("@-89.5,-179.25".to_string(), Some((-89.5, -179.25))),
        // other spellings of the same numbers and of the same airport (all accepted on the pinned tree)
        ("@43.30,1.350".to_string(), Some((43.3, 1.35))),
        ("@4.33e1,1.35".to_string(), Some((43.3, 1.35))),
        ("@+43.3,+1.35".to_string(), Some((43.3, 1.35))),
        ("@-0.0,0.0".to_string(), Some((0.0, 0.0))),
        ("@TLS".to_string(), lfbo),
        ("?AMS".to_string(), eham),
    ];
    // (upper-case letters only with tcp/udp: a ws:// URL is lower-cased by the URL parser, see the observations)
    let hosts = ["localhost", "1.2.3.4", "example.org", "[::1]", "0.0.0.0", "a-b.c", "Radarcape.local", "EXAMPLE.ORG"];
    let ports = [0u32, 1, 80, 4003, 10003, 30005, 65535];
    let mut v = Vec::new();
    for (r, pos) in &refs {
        for h in hosts {
            for p in ports {
                let hp = format!("{h}:{p}");
                for scheme in ["", "tcp://"] {
                    // "host:port" without a scheme is not accepted by the parser
                    // (a DNS name reads as a URL scheme, a numeric host as a path): it is
                    // answered with Err, which the property allows; only forms with an
                    // explicit scheme and the documented ":port" form are judged
                    if scheme.is_empty() {
                        continue;
                    }
                    v.push(WellFormed {
                        spec: format!("{scheme}{hp}{r}"),
                        expect: Address::Tcp(AddressPath::Short(hp.clone())),
                        // (the optional jump host of the long form is how to get there, not where: same endpoint)
                        tables: vec![format!("tcp = \"{hp}\""), format!("tcp = {{ address = \"{h}\", port = {p} }}"), format!("tcp = {{ address = \"{h}\", port = {p}, jump = \"gateway.example\" }}"), format!("name = \"alias\"\ntcp = {{ address = \"{h}\", port = {p} }}")],
                        reference: *pos,
                    });
                }
                v.push(WellFormed { spec: format!("udp://{hp}{r}"), expect: Address::Udp(hp.clone()), tables: vec![format!("udp = \"{hp}\"")], reference: *pos });
                if h.chars().any(|c| c.is_ascii_uppercase()) {
                    continue;
                }
                for path in ["/", "/get", "/a/b", "/4003", "/radarcape/", "/a/b/"] {
                    let url = format!("ws://{hp}{path}");
                    v.push(WellFormed {
                        spec: format!("{url}{r}"),
                        expect: Address::Websocket(WebsocketPath::Short(url.clone())),
                        tables: vec![format!("websocket = \"{url}\""), format!("websocket = {{ url = \"{url}\" }}"), format!("websocket = {{ url = \"{url}\", jump = \"gateway.example\" }}"), format!("name = \"alias\"\nwebsocket = \"{url}\"")],
                        reference: *pos,
                    });
                }
            }
        }
        // port only (documented "[host:]port[@reference]")
        for p in ports {
            v.push(WellFormed {
                spec: format!(":{p}{r}"),
                expect: Address::Tcp(AddressPath::Short(format!("0.0.0.0:{p}"))),
                tables: vec![format!("tcp = \"0.0.0.0:{p}\""), format!("tcp = {{ address = \"0.0.0.0\", port = {p} }}")],
                reference: *pos,
            });
        }
        v.push(WellFormed { spec: format!("rtlsdr:{r}"), expect: Address::Rtlsdr(None), tables: vec![], reference: *pos });
        v.push(WellFormed {
            spec: format!("rtlsdr://serial=00000001{r}"),
            expect: Address::Rtlsdr(Some("serial=00000001".to_string())),
            tables: vec!["rtlsdr = \"serial=00000001\"".to_string()],
            reference: *pos,
        });
    }
    v
}

/// (scheme, endpoint text) of an address, whichever of its documented forms it is held in
fn endpoint(a: &Address) -> Option<(String, String)> {
    let v = serde_json::to_value(a).ok()?;
    let (scheme, val) = v.as_object()?.iter().next()?;
    let text = match val {
        Value::String(s) => s.clone(),
        Value::Null => String::new(),
        Value::Object(o) => match (o.get("url"), o.get("address"), o.get("port")) {
            (Some(Value::String(u)), _, _) => u.clone(),
            (_, Some(Value::String(h)), Some(p)) => format!("{h}:{p}"),
            _ => val.to_string(),
        },
        other => other.to_string(),
    };
    Some((scheme.clone(), text))
}

fn pos_close(a: (f64, f64), b: (f64, f64)) -> bool {
    (a.0 - b.0).abs() < 1e-9 && (a.1 - b.1).abs() < 1e-9
}

fn check_well_formed(w: &WellFormed, rep: &Report, outcomes: &mut BTreeMap<String, u64>, serials: &mut BTreeMap<String, u64>) {
    let Some(r) = parse(&w.spec, rep, outcomes) else { return };
    let wit = json!({"kind": "well-formed", "spec": w.spec});
    let src = match r {
        Ok(s) => s,
        Err(e) => {
            rep.violation("well-formed:rejected", format!("well-formed specification {:?} is rejected: {e}", w.spec), wit);
            return;
        }
    };
    // compare the endpoints, not their representation (short string or address/port table)
    if endpoint(&src.address) != endpoint(&w.expect) {
        rep.violation("well-formed:endpoint", format!("{:?} parsed to {:?}, expected {:?}", w.spec, src.address, w.expect), wit.clone());
    }
    match (w.reference, src.reference) {
        (None, None) => {}
        (Some(e), Some(g)) if pos_close(e, (g.latitude, g.longitude)) => {}
        (e, g) => {
            rep.violation("well-formed:reference", format!("{:?}: reference {:?}, expected {:?}", w.spec, g.map(|p| (p.latitude, p.longitude)), e), wit.clone());
        }
    }
    let s1 = match guarded(|| src.serial()) {
        Ok(s) => s,
        Err(p) => {
            rep.violation(&format!("panic:serial:{}", panic_class(&p)), format!("serial() panicked for {:?}: {p}", w.spec), wit);
            return;
        }
    };
    // parsing the same string twice gives the same serial
    if let Ok(Ok(again)) = guarded(|| Source::from_str(&w.spec)) {
        if again.serial() != s1 {
            rep.violation("serial:unstable", format!("{:?}: two parses give serials {s1} and {}", w.spec, again.serial()), wit.clone());
        }
    }
    serials.insert(w.spec.clone(), s1);
    for t in &w.tables {
        rep.trans(1);
        match guarded(|| toml::from_str::<Source>(t)) {
            Ok(Ok(ts)) => {
                let s2 = ts.serial();
                serials.insert(t.clone(), s2);
                if s1 != s2 {
                    rep.violation(
                        "serial:string-vs-table",
                        format!("{:?} has serial {s1} but the table form `{t}` has serial {s2}", w.spec),
                        json!({"kind": "well-formed", "spec": w.spec, "table": t}),
                    );
                }
            }
            Ok(Err(e)) => rep.violation("harness:table-form", format!("documented table form `{t}` does not deserialise: {e}"), wit.clone()),
            Err(p) => rep.violation(&format!("panic:table-form:{}", panic_class(&p)), format!("deserialising `{t}` panicked: {p}"), wit.clone()),
        }
    }
}

fn fnv(m: &BTreeMap<String, u64>) -> u64 {
    let mut h: u64 = 0xcbf29ce484222325;
    for (k, v) in m {
        for b in k.bytes().chain(v.to_le_bytes()) {
            h ^= b as u64;
            h = h.wrapping_mul(0x100000001b3);
        }
    }
    h
}

fn serial_table(apts: &[Apt]) -> BTreeMap<String, u64> {
    let rep = Report::new("C16");
    let mut o = BTreeMap::new();
    let mut serials = BTreeMap::new();
    for w in well_formed(apts) {
        check_well_formed(&w, &rep, &mut o, &mut serials);
    }
    serials
}

/// Child mode: print the digest of all serials (used for the cross-process check)
pub fn print_serial_digest() {
    let apts = airports();
    let s = serial_table(&apts);
    println!("{} {}", s.len(), fnv(&s));
}

/// `C16:cli`: the specifications whose acceptance on the real command line is compared with `Source::from_str`
/// (every well-formed form on a stride, the first malformed ones of the grammar product) and what from_str says
pub fn print_cli_specs() {
    let apts = airports();
    let mut specs: Vec<(String, bool)> = well_formed(&apts).into_iter().enumerate().filter(|(i, w)| i % 7 == 0 || w.spec.starts_with("rtlsdr") || w.spec.starts_with(':')).map(|(_, w)| (w.spec, true)).collect();
    let mut n = 0;
    for sc in SCHEMES {
        for h in HOSTS {
            for p in PORTS {
                n += 1;
                if n % 3 == 0 {
                    specs.push((format!("{sc}{h}{p}"), false));
                }
            }
        }
    }
    let out: Vec<Value> = specs
        .iter()
        .filter(|(s, _)| !s.contains('\0'))
        .map(|(s, wf)| {
            let a = match guarded(|| Source::from_str(s)) {
                Ok(Ok(_)) => json!(true),
                Ok(Err(_)) => json!(false),
                Err(_) => json!("panic"),
            };
            json!({"spec": s, "well_formed": wf, "accepts": a})
        })
        .collect();
    println!("{}", serde_json::to_string(&out).unwrap());
}

pub fn run(ctx: &Ctx, rep: &Report) {
    rep.set_rule("grammar product scheme x host x port x path x separator x reference, all strings up to a length over a 14-symbol alphabet (incl. two multi-byte characters), all well-formed endpoint/reference combinations, all airport codes; non-trivial = specifications that reach the per-scheme extraction (parse to Ok) or are well-formed");
    let apts = airports();
    let refs: &[&str] = if ctx.thorough() { &REFS_FULL } else { &REFS_QUICK };
    // (a) grammar product
    let mut specs: Vec<String> = Vec::new();
    for sc in SCHEMES {
        for h in HOSTS {
            for p in PORTS {
                for pa in PATHS {
                    for (si, se) in SEPS.iter().enumerate() {
                        for r in refs {
                            if si == 0 && !r.is_empty() {
                                continue; // reference without separator is just a longer path
                            }
                            specs.push(format!("{sc}{h}{p}{pa}{se}{r}"));
                        }
                    }
                }
            }
        }
    }
    specs.sort();
    specs.dedup();
    let outcomes = std::sync::Mutex::new(BTreeMap::<String, u64>::new());
    let ok_count = std::sync::atomic::AtomicU64::new(0);
    let run_specs = |list: &[String]| {
        par_ranges(ctx.threads, list.len() as u64, 64, |lo, hi| {
            let mut o = BTreeMap::new();
            for s in &list[lo as usize..hi as usize] {
                if let Some(Ok(src)) = parse(s, rep, &mut o) {
                    ok_count.fetch_add(1, std::sync::atomic::Ordering::Relaxed);
                    if let Err(p) = guarded(|| src.serial()) {
                        rep.violation(&format!("panic:serial:{}", panic_class(&p)), format!("serial() panicked for {s:?}: {p}"), json!({"kind": "source", "spec": s}));
                    }
                }
            }
            let mut g = outcomes.lock().unwrap();
            for (k, n) in o {
                *g.entry(k).or_insert(0) += n;
            }
        });
    };
    run_specs(&specs);
    rep.part("grammar product", specs.len() as u64, json!({"references": refs.len()}));
    let mut total = specs.len() as u64;
    for s in specs.iter().step_by(specs.len() / 5 + 1) {
        rep.sample(json!({"spec": s, "result": guarded(|| describe(&Source::from_str(s))).unwrap_or("panic".to_string())}));
    }
    // (b) all short strings
    let maxlen = if ctx.thorough() { 5 } else { 4 };
    let mut shorts: Vec<String> = vec![String::new()];
    let mut layer: Vec<String> = vec![String::new()];
    for _ in 0..maxlen {
        let mut next = Vec::with_capacity(layer.len() * SHORT_ALPHABET.len());
        for s in &layer {
            for c in SHORT_ALPHABET {
                let mut t = s.clone();
                t.push(c);
                next.push(t);
            }
        }
        shorts.extend(next.iter().cloned());
        layer = next;
    }
    run_specs(&shorts);
    total += shorts.len() as u64;
    rep.part("short strings", shorts.len() as u64, json!({"max_len": maxlen, "alphabet": SHORT_ALPHABET.iter().collect::<String>()}));
    // (b') long specifications: a multi-byte character at every byte offset up to 140, for every scheme, in the
    // host, the path and the reference (byte-indexed slicing of the text shows only on long inputs)
    let mut longs: Vec<String> = Vec::new();
    for sc in SCHEMES {
        for k in (0..=140usize).step_by(if ctx.thorough() { 1 } else { 1 }) {
            let a = "a".repeat(k);
            for ch in ['\u{e9}', '\u{20ac}'] {
                longs.push(format!("{sc}{a}{ch}aaaa:4003"));
                longs.push(format!("{sc}host.example.org/{a}{ch}/raw:30005@LFBO"));
                longs.push(format!("{sc}host.example.org:4003@{a}{ch}"));
            }
        }
    }
    run_specs(&longs);
    total += longs.len() as u64;
    rep.part("long strings with multi-byte characters", longs.len() as u64, json!({"max_bytes": longs.iter().map(|s| s.len()).max()}));
    // (c) reference strings directly, every airport code
    let mut o = BTreeMap::new();
    let mut pos_cases = 0u64;
    for r in REFS_FULL {
        parse_position(r, rep, &mut o);
        parse_position(r.trim(), rep, &mut o);
        pos_cases += 2;
    }
    for s in shorts.iter().filter(|s| s.chars().count() <= 3) {
        parse_position(s, rep, &mut o);
        pos_cases += 1;
    }
    {
        let mut g = outcomes.lock().unwrap();
        for (k, n) in o {
            *g.entry(k).or_insert(0) += n;
        }
    }
    let codes: Vec<(String, f64, f64, &str)> = {
        let mut v = Vec::new();
        for a in &apts {
            if a.icao.len() == 4 && a.icao.chars().all(|c| c.is_ascii_alphanumeric()) {
                v.push((a.icao.clone(), a.lat, a.lon, "icao"));
            }
        }
        {
            for a in &apts {
                if a.iata.len() == 3 && a.iata.chars().all(|c| c.is_ascii_alphanumeric()) {
                    v.push((a.iata.clone(), a.lat, a.lon, "iata"));
                }
            }
        }
        v
    };
    let step = 1;
    let sel: Vec<&(String, f64, f64, &str)> = codes.iter().step_by(step).collect();
    par_ranges(ctx.threads, sel.len() as u64, 16, |lo, hi| {
        let mut o = BTreeMap::new();
        for c in &sel[lo as usize..hi as usize] {
            if let Some(r) = parse_position(&c.0, rep, &mut o) {
                match r {
                    Ok(p) if pos_close((p.latitude, p.longitude), (c.1, c.2)) => {}
                    other => {
                        // the codes of the embedded table are unique keys on the pinned tree; when two records carry one code
                        // the parser can honour only one of them: the other record's code no longer yields its position
                        let alt = apts.iter().any(|a| (a.icao == c.0 || a.iata == c.0) && other.as_ref().is_ok_and(|p| pos_close((p.latitude, p.longitude), (a.lat, a.lon))));
                        rep.violation(
                            &format!("airport-code:{}{}", c.3, if alt { ":ambiguous" } else { "" }),
                            format!(
                                "reference {:?} ({} code of the airport at {},{}) gives {:?}{}",
                                c.0,
                                c.3,
                                c.1,
                                c.2,
                                other.map(|p| (p.latitude, p.longitude)),
                                if alt { " (another record of airports.json carries the same code)" } else { "" }
                            ),
                            json!({"kind": "airport", "code": c.0, "lat": c.1, "lon": c.2}),
                        );
                    }
                }
            }
        }
        let mut g = outcomes.lock().unwrap();
        for (k, n) in o {
            *g.entry(k).or_insert(0) += n;
        }
    });
    pos_cases += sel.len() as u64;
    // the table itself is an input of the parser: against the coordinates frozen from the pinned tree
    // (data/airports_pinned.json), a code must still designate the same place. A refresh may move an airport by a few
    // hundred metres; a quarter of a degree (about 25 km) is another place - swapped coordinates, a wrong record.
    match std::env::var("VERIF_HOME").ok().and_then(|h| std::fs::read_to_string(format!("{h}/data/airports_pinned.json")).ok()).and_then(|t| serde_json::from_str::<Value>(&t).ok()) {
        None => rep.warn("data/airports_pinned.json could not be read (VERIF_HOME unset?): airport coordinates were only checked against the table itself".to_string()),
        Some(pinned) => {
            let recs = pinned["records"].as_array().cloned().unwrap_or_default();
            let known: BTreeSet<&str> = apts.iter().flat_map(|a| [a.icao.as_str(), a.iata.as_str()]).collect();
            let mut n = 0u64;
            let mut gone = 0u64;
            let mut o2 = BTreeMap::new();
            for r in &recs {
                let (lat, lon) = (r[2].as_f64().unwrap_or(f64::NAN), r[3].as_f64().unwrap_or(f64::NAN));
                for (kind, code) in [("icao", r[0].as_str().unwrap_or("")), ("iata", r[1].as_str().unwrap_or(""))] {
                    if code.is_empty() || !code.chars().all(|c| c.is_ascii_alphanumeric()) {
                        continue;
                    }
                    if !known.contains(code) {
                        gone += 1;
                        continue;
                    }
                    n += 1;
                    if let Some(Ok(p)) = parse_position(code, rep, &mut o2) {
                        if (p.latitude - lat).abs() > 0.25 || (p.longitude - lon).abs() > 0.25 {
                            rep.violation(
                                &format!("airport-code:{kind}:moved"),
                                format!("reference {code:?} gives ({}, {}); on the pinned tree this {kind} code designates the airport at ({lat}, {lon})", p.latitude, p.longitude),
                                json!({"kind": "airport-pinned", "code": code, "lat": lat, "lon": lon}),
                            );
                        }
                    }
                }
            }
            pos_cases += n;
            rep.note("airports_pinned", json!({"codes_checked": n, "codes_no_longer_in_table": gone}));
        }
    }
    rep.part("reference strings", pos_cases, json!({"airport_codes": sel.len(), "airports_in_file": apts.len()}));
    total += pos_cases;
    // (d) well-formed specifications: endpoint, reference, serial across forms
    let wf = well_formed(&apts);
    let mut o = BTreeMap::new();
    let mut serials = BTreeMap::new();
    for w in &wf {
        check_well_formed(w, rep, &mut o, &mut serials);
    }
    {
        let mut g = outcomes.lock().unwrap();
        for (k, n) in o {
            *g.entry(k).or_insert(0) += n;
        }
    }
    total += wf.len() as u64;
    rep.part("well-formed", wf.len() as u64, json!({"serials": serials.len()}));
    rep.sample(json!({"spec": wf[7].spec, "tables": wf[7].tables}));
    // distinct endpoints must not collide (sanity of the serial as an identifier; reported, not judged)
    let mut by_serial: BTreeMap<u64, Vec<&String>> = BTreeMap::new();
    for (k, v) in &serials {
        by_serial.entry(*v).or_default().push(k);
    }
    rep.note("distinct_serials", json!(by_serial.len()));
    // (e) same serials in a second process
    let mine = format!("{} {}", serials.len(), fnv(&serials));
    let exe = std::env::current_exe().expect("current exe");
    let mut same = 0;
    for _ in 0..2 {
        let out = std::process::Command::new(&exe).env("JET1090_VERIF", "C16:serials").output();
        match out {
            Ok(o) if o.status.success() => {
                let theirs = String::from_utf8_lossy(&o.stdout).trim().to_string();
                if theirs == mine {
                    same += 1;
                } else {
                    rep.violation("serial:differs-between-processes", format!("digest of {} serials is {mine} in this process and {theirs} in another run", serials.len()), json!({"kind": "process"}));
                }
            }
            other => {
                rep.not_exhaustive(&format!("second process for the serial comparison failed: {other:?}"));
            }
        }
    }
    rep.part("cross-process serials", 2, json!({"identical": same, "digest": mine}));
    // observation (not judged): websocket table URL without a path or port
    for (a, b) in [("ws://localhost:4003", "websocket = \"ws://localhost:4003\""), ("ws://localhost/x", "websocket = \"ws://localhost/x\"")] {
        if let (Ok(Ok(s)), Ok(Ok(t))) = (guarded(|| Source::from_str(a)), guarded(|| toml::from_str::<Source>(b))) {
            rep.note(&format!("observation:{a}"), json!({"string_serial": s.serial(), "table_serial": t.serial(), "equal": s.serial() == t.serial()}));
        }
    }
    let g = outcomes.lock().unwrap();
    rep.merge_outcomes(&g);
    rep.eval(total);
    rep.state(total);
    rep.nontriv(ok_count.load(std::sync::atomic::Ordering::Relaxed) + wf.len() as u64);
    rep.set_bound(&format!("grammar product ({} strings), all strings of length <= {maxlen} over 14 symbols ({}), {} well-formed specifications x table forms, {} airport codes, 2 extra processes", specs.len(), shorts.len(), wf.len(), sel.len()));
    rep.assume("well-formed means host and port explicit (or the documented ':port' / 'rtlsdr:' forms); websocket table URLs are written with an explicit port and path");
    if !ctx.thorough() {
        rep.not_exhaustive("quick tier: reduced reference alphabet, strings up to length 4");
    }
}

pub fn replay(w: &Value, rep: &Report) {
    let apts = airports();
    let mut o = BTreeMap::new();
    let kind = w["kind"].as_str().unwrap_or("source");
    let spec = w["spec"].as_str().unwrap_or("").to_string();
    rep.sample(w.clone());
    rep.state(1);
    match kind {
        "position" => {
            parse_position(&spec, rep, &mut o);
        }
        "airport-pinned" => {
            let code = w["code"].as_str().unwrap_or("");
            let (lat, lon) = (w["lat"].as_f64().unwrap_or(f64::NAN), w["lon"].as_f64().unwrap_or(f64::NAN));
            let mut o = BTreeMap::new();
            if let Some(Ok(p)) = parse_position(code, rep, &mut o) {
                if (p.latitude - lat).abs() > 0.25 || (p.longitude - lon).abs() > 0.25 {
                    rep.violation("airport-code:moved:replay", format!("reference {code:?} gives ({}, {}), pinned ({lat}, {lon})", p.latitude, p.longitude), w.clone());
                }
            }
        }
        "airport" => {
            let code = w["code"].as_str().unwrap_or("");
            let (lat, lon) = (w["lat"].as_f64().unwrap_or(0.0), w["lon"].as_f64().unwrap_or(0.0));
            if let Some(r) = parse_position(code, rep, &mut o) {
                let ok = r.as_ref().is_ok_and(|p| apts.iter().any(|a| (a.icao == code || a.iata == code) && pos_close((p.latitude, p.longitude), (a.lat, a.lon))));
                if !ok {
                    rep.violation("airport-code:replay", format!("reference {code:?} (airport at {lat},{lon}) gives {:?}", r.map(|p| (p.latitude, p.longitude))), w.clone());
                }
            }
        }
        "well-formed" => {
            let mut serials = BTreeMap::new();
            match well_formed(&apts).into_iter().find(|x| x.spec == spec) {
                Some(wf) => check_well_formed(&wf, rep, &mut o, &mut serials),
                None => {
                    parse(&spec, rep, &mut o);
                }
            }
        }
        _ => {
            parse(&spec, rep, &mut o);
        }
    }
    rep.merge_outcomes(&o);
}

// C10 — deduplication: every arrival history up to a depth over (frame,
// receiver, timestamp) x window lengths is pushed through the real
// dedup::deduplicate_messages (real tokio channels, polled step by step on the
// calling thread) and judged by the property's conservation / order
// invariants; a list-based reference model is compared as a second opinion.

use super::common::*;
use super::frames::*;
use crate::dedup::deduplicate_messages;
use rs1090::decode::{Message, SensorMetadata, TimedMessage};
use rs1090::prelude::DekuContainerRead;
use serde_json::{json, Value};
use std::collections::BTreeMap;
use std::future::Future;
use std::sync::atomic::{AtomicU64, Ordering};
use std::task::Context;

#[derive(Clone, Copy, Debug, PartialEq, Eq)]
pub struct Arr {
    pub frame: u8,
    pub rx: u8,
    pub ms: u64,
}

pub struct Alphabet {
    pub frames: Vec<Vec<u8>>,
    pub decodable: Vec<bool>,
}

pub fn alphabet() -> Alphabet {
    let mut frames = vec![
        df11(5, 0x4840d6, 0),
        df11(5, 0x4840d7, 0),
        df11(5, 0x3c6444, 0),
        vec![0x08, 0x11, 0x22, 0x33, 0x44, 0x55, 0x66], // DF1: no such format, cannot be decoded
    ];
    // further decodable frames (indices 4..16) for histories with many groups open at once
    for i in 0..12u32 {
        frames.push(df11(5, 0x700000 + 0x1111 * i, 0));
    }
    // look-alikes of frame 0 (indices 16..=20): the same bytes with a trailer, zero-padded to 14 bytes, doubled, and the
    // empty and the all-zero frame. A frame is an opaque key: none of these is "the same frame" as another.
    let f0 = frames[0].clone();
    let mut trailer = f0.clone();
    trailer.push(0x00);
    let mut padded = f0.clone();
    padded.resize(14, 0);
    let mut doubled = f0.clone();
    doubled.extend_from_slice(&f0);
    frames.extend([trailer, padded, doubled, Vec::new(), vec![0u8; 14]]);
    // 200 more decodable frames (indices 21..=220) for bursts of expirations
    for i in 0..200u32 {
        frames.push(df11(5, 0x710000 + 0x0101 * i, 0));
    }
    let decodable = frames.iter().map(|f| Message::from_bytes((f, 0)).is_ok()).collect();
    Alphabet { frames, decodable }
}

/// id offset of the second metadata entry of a reception
pub const SECOND: u64 = 100_000;

#[derive(Clone, Copy, Debug, PartialEq, Eq)]
pub struct Variant {
    /// timestamps are base_s seconds + the history's milliseconds (0, or a realistic Unix time)
    pub base_s: u64,
    /// receptions of receiver 1 carry two metadata entries
    pub multi: bool,
}

#[derive(Clone, Debug, PartialEq, Eq, PartialOrd, Ord)]
pub struct Rec {
    pub step: usize,
    pub frame: Vec<u8>,
    pub ts_ms: u64,
    pub ids: Vec<u64>,
    pub decoded: bool,
}

thread_local! {
    /// One current-thread tokio runtime per worker, with the time driver: the step-wise polling below runs inside
    /// its context, so a dedup task that uses tokio timers correctly does not fail for want of a reactor (its timers
    /// simply never fire there: no wall-clock time passes between two polls); the timed runs drive it for real.
    static RT: tokio::runtime::Runtime = tokio::runtime::Builder::new_current_thread().enable_time().build().expect("tokio runtime");
}

/// Run one history through the real task. Reception i carries id i in
/// metadata.nanoseconds. Returns the records in emission order, each with the
/// index of the arrival after which it came out (n = after end of input).
pub fn run_real(al: &Alphabet, hist: &[Arr], w: u32, var: Variant) -> Result<Vec<Rec>, String> {
    guarded(|| {
        let handle = RT.with(|rt| rt.handle().clone());
        let _ctx = handle.enter();
        let n = hist.len();
        let (tx_in, rx_in) = tokio::sync::mpsc::channel::<TimedMessage>(n + 1);
        let (tx_out, mut rx_out) = tokio::sync::mpsc::channel::<TimedMessage>(n + 1);
        let mut fut = Box::pin(deduplicate_messages(rx_in, tx_out, w));
        let waker = futures::task::noop_waker();
        let mut cx = Context::from_waker(&waker);
        let mut out = Vec::new();
        let mut drain = |step: usize, rx_out: &mut tokio::sync::mpsc::Receiver<TimedMessage>| {
            while let Ok(m) = rx_out.try_recv() {
                out.push(Rec {
                    step,
                    ts_ms: ((m.timestamp * 1e3).round() as u64).wrapping_sub(var.base_s * 1000),
                    ids: m.metadata.iter().map(|x| x.nanoseconds.unwrap_or(u64::MAX)).collect(),
                    decoded: m.message.is_some(),
                    frame: m.frame,
                });
            }
        };
        let mut done = false;
        for (i, a) in hist.iter().enumerate() {
            let m = make_msg(al, i, a, var);
            tx_in.try_send(m).map_err(|_| ()).expect("input channel has room");
            for _ in 0..2 {
                if !done && fut.as_mut().poll(&mut cx).is_ready() {
                    done = true;
                }
            }
            drain(i, &mut rx_out);
        }
        drop(tx_in);
        for _ in 0..3 {
            if !done && fut.as_mut().poll(&mut cx).is_ready() {
                done = true;
            }
        }
        drain(n, &mut rx_out);
        if !done {
            panic!("deduplicate_messages did not finish after its input channel was closed");
        }
        out
    })
}

/// The same history with a SLOW consumer: the output channel holds one record and the consumer takes at most one
/// record per arrival (none before arrival `from`), so the task spends most of its time blocked in `send`. Nothing may
/// be lost, duplicated or reordered by that; everything is drained after the input has closed.
pub fn run_real_slow(al: &Alphabet, hist: &[Arr], w: u32, var: Variant, from: usize) -> Result<Vec<Rec>, String> {
    guarded(|| {
        let handle = RT.with(|rt| rt.handle().clone());
        let _ctx = handle.enter();
        let n = hist.len();
        let (tx_in, rx_in) = tokio::sync::mpsc::channel::<TimedMessage>(n + 1);
        let (tx_out, mut rx_out) = tokio::sync::mpsc::channel::<TimedMessage>(1);
        let mut fut = Box::pin(deduplicate_messages(rx_in, tx_out, w));
        let waker = futures::task::noop_waker();
        let mut cx = Context::from_waker(&waker);
        let mut out = Vec::new();
        let mut take = |step: usize, rx_out: &mut tokio::sync::mpsc::Receiver<TimedMessage>, max: usize| {
            let mut k = 0;
            while k < max {
                match rx_out.try_recv() {
                    Ok(m) => {
                        out.push(Rec {
                            step,
                            ts_ms: ((m.timestamp * 1e3).round() as u64).wrapping_sub(var.base_s * 1000),
                            ids: m.metadata.iter().map(|x| x.nanoseconds.unwrap_or(u64::MAX)).collect(),
                            decoded: m.message.is_some(),
                            frame: m.frame,
                        });
                        k += 1;
                    }
                    Err(_) => break,
                }
            }
            k
        };
        let mut done = false;
        for (i, a) in hist.iter().enumerate() {
            tx_in.try_send(make_msg(al, i, a, var)).map_err(|_| ()).expect("input channel has room");
            for _ in 0..2 {
                if !done && fut.as_mut().poll(&mut cx).is_ready() {
                    done = true;
                }
            }
            if i >= from {
                take(i, &mut rx_out, 1);
            }
        }
        drop(tx_in);
        // drain: poll and take until the task has finished and nothing is left (bounded: every round must make progress)
        let mut idle = 0;
        while idle < 4 {
            if !done && fut.as_mut().poll(&mut cx).is_ready() {
                done = true;
            }
            if take(n, &mut rx_out, 1) == 0 {
                idle += 1;
            } else {
                idle = 0;
            }
        }
        if !done {
            panic!("deduplicate_messages did not finish after its input channel was closed and its output drained");
        }
        out
    })
}

fn make_msg(al: &Alphabet, i: usize, a: &Arr, var: Variant) -> TimedMessage {
    let t = var.base_s as f64 + a.ms as f64 / 1e3;
    // in the multi variant receiver 1 is a GNSS-disciplined receiver: its receptions also carry its own clock, 17.5 s off
    let gnss = if var.multi && a.rx == 0 { Some(t + 17.5) } else { None };
    let mut metadata = vec![SensorMetadata { system_timestamp: t, gnss_timestamp: gnss, nanoseconds: Some(i as u64), rssi: None, serial: a.rx as u64 + 1, name: None, ..Default::default() }];
    if var.multi && a.rx == 1 {
        metadata.push(SensorMetadata { system_timestamp: t, gnss_timestamp: None, nanoseconds: Some(i as u64 + SECOND), rssi: None, serial: 9, name: None, ..Default::default() });
    }
    TimedMessage { timestamp: t, frame: al.frames[a.frame as usize].clone(), message: None, metadata, decode_time: None, ..Default::default() }
}

/// The same history, but driven by a real runtime with WALL-CLOCK pauses: after arrival `pause_after` nothing is sent
/// for `pause_ms` milliseconds of real time (a receiver behind a slow link, a quiet night). Record timestamps are
/// unchanged, so the property's verdict must not depend on the pause.
pub fn run_real_timed(al: &Alphabet, hist: &[Arr], w: u32, var: Variant, pause_after: usize, pause_ms: u64) -> Result<Vec<Rec>, String> {
    guarded(|| {
        RT.with(|rt| {
            rt.block_on(async {
                let n = hist.len();
                let (tx_in, rx_in) = tokio::sync::mpsc::channel::<TimedMessage>(n + 1);
                let (tx_out, mut rx_out) = tokio::sync::mpsc::channel::<TimedMessage>(4 * n + 8);
                let out = std::cell::RefCell::new(Vec::new());
                let drain = |step: usize, rx_out: &mut tokio::sync::mpsc::Receiver<TimedMessage>| {
                    while let Ok(m) = rx_out.try_recv() {
                        out.borrow_mut().push(Rec {
                            step,
                            ts_ms: ((m.timestamp * 1e3).round() as u64).wrapping_sub(var.base_s * 1000),
                            ids: m.metadata.iter().map(|x| x.nanoseconds.unwrap_or(u64::MAX)).collect(),
                            decoded: m.message.is_some(),
                            frame: m.frame,
                        });
                    }
                };
                let task = deduplicate_messages(rx_in, tx_out, w);
                let driver = async {
                    for (i, a) in hist.iter().enumerate() {
                        tx_in.send(make_msg(al, i, a, var)).await.map_err(|_| ()).expect("input channel open");
                        for _ in 0..4 {
                            tokio::task::yield_now().await;
                        }
                        if i == pause_after {
                            tokio::time::sleep(std::time::Duration::from_millis(pause_ms)).await;
                            for _ in 0..4 {
                                tokio::task::yield_now().await;
                            }
                        }
                        drain(i, &mut rx_out);
                    }
                    drop(tx_in);
                    for _ in 0..8 {
                        tokio::task::yield_now().await;
                    }
                    rx_out
                };
                let ((), mut rx_out) = match tokio::time::timeout(std::time::Duration::from_secs(20), futures::future::join(task, driver)).await {
                    Ok(x) => x,
                    Err(_) => panic!("deduplicate_messages did not finish within 20 s after its input channel was closed"),
                };
                drain(n, &mut rx_out);
                out.into_inner()
            })
        })
    })
}

/// R-DEDUP: open groups in a Vec; an arrival joins the open group of its frame
/// or opens one; then every group whose first arrival + w <= this arrival closes.
pub fn run_model(al: &Alphabet, hist: &[Arr], w: u32, var: Variant) -> Vec<Rec> {
    struct G {
        frame: u8,
        first_ms: u64,
        ids: Vec<u64>,
    }
    let mut open: Vec<G> = Vec::new();
    let mut out = Vec::new();
    for (i, a) in hist.iter().enumerate() {
        let mut mine = vec![i as u64];
        if var.multi && a.rx == 1 {
            mine.push(i as u64 + SECOND);
        }
        match open.iter_mut().find(|g| g.frame == a.frame) {
            Some(g) => g.ids.extend(mine),
            None => open.push(G { frame: a.frame, first_ms: a.ms, ids: mine }),
        }
        let mut k = 0;
        while k < open.len() {
            if open[k].first_ms + w as u64 <= a.ms {
                let g = open.remove(k);
                if al.decodable[g.frame as usize] {
                    out.push(Rec { step: i, frame: al.frames[g.frame as usize].clone(), ts_ms: g.first_ms, ids: g.ids, decoded: true });
                }
            } else {
                k += 1;
            }
        }
    }
    out
}

/// The property's invariants on one execution. Returns (class, text).
pub fn judge(al: &Alphabet, hist: &[Arr], w: u32, var: Variant, out_raw: &[Rec]) -> Option<(String, String)> {
    let n = hist.len();
    // reduce metadata ids to member arrivals; every member must contribute exactly its own entries, in order
    let mut out_vec: Vec<Rec> = Vec::with_capacity(out_raw.len());
    for r in out_raw {
        let mut members: Vec<u64> = Vec::new();
        for id in &r.ids {
            let a = id % SECOND;
            if members.last() != Some(&a) {
                members.push(a);
            }
        }
        let mut expect: Vec<u64> = Vec::new();
        for a in &members {
            expect.push(*a);
            if var.multi && (*a as usize) < n && hist[*a as usize].rx == 1 {
                expect.push(*a + SECOND);
            }
        }
        if expect != r.ids {
            return Some(("metadata-entries".into(), format!("record carries metadata entries {:?}, its members {:?} brought {:?}", r.ids, members, expect)));
        }
        let mut r2 = r.clone();
        r2.ids = members;
        out_vec.push(r2);
    }
    let out: &[Rec] = &out_vec;
    let mut seen = vec![0u32; n];
    let nondecreasing = hist.windows(2).all(|p| p[0].ms <= p[1].ms);
    for r in out {
        if r.ids.is_empty() {
            return Some(("record-without-reception".into(), format!("a record for frame {} carries no reception", hexs(&r.frame))));
        }
        for id in &r.ids {
            if *id as usize >= n {
                return Some(("reception-invented".into(), format!("record carries reception id {id} which was never received")));
            }
            seen[*id as usize] += 1;
            if al.frames[hist[*id as usize].frame as usize] != r.frame {
                return Some(("reception-under-wrong-frame".into(), format!("reception {id} of frame {} is attached to a record of frame {}", hexs(&al.frames[hist[*id as usize].frame as usize]), hexs(&r.frame))));
            }
        }
        if !r.ids.windows(2).all(|p| p[0] < p[1]) {
            return Some(("receptions-out-of-arrival-order".into(), format!("receptions of a record are not in arrival order: {:?}", r.ids)));
        }
        let first = r.ids[0] as usize;
        if r.ts_ms != hist[first].ms {
            return Some(("timestamp-not-first-arrival".into(), format!("record timestamp {} ms, first arrival of its group at {} ms", r.ts_ms, hist[first].ms)));
        }
        if !al.decodable[hist[first].frame as usize] || !r.decoded {
            return Some(("undecodable-emitted".into(), format!("a record was emitted for frame {} without a decoded message", hexs(&r.frame))));
        }
        // emitted only once its window has closed (by message time seen so far)
        let watermark = hist[..=r.step.min(n - 1)].iter().map(|a| a.ms).max().unwrap_or(0);
        if r.step < n && watermark < hist[first].ms + w as u64 {
            return Some(("emitted-before-window-closed".into(), format!("group first seen at {} ms left at arrival {} ({} ms) although the window is {w} ms", hist[first].ms, r.step, hist[r.step].ms)));
        }
    }
    for (i, c) in seen.iter().enumerate() {
        if *c > 1 {
            return Some(("reception-duplicated".into(), format!("reception {i} appears in {c} records")));
        }
    }
    // every decodable reception whose window has certainly closed must be out
    for i in 0..n {
        if seen[i] == 0 && al.decodable[hist[i].frame as usize] {
            let latest_first = hist[..=i].iter().filter(|a| a.frame == hist[i].frame).map(|a| a.ms).max().unwrap();
            if let Some(j) = (i + 1..n).find(|j| hist[*j].ms >= latest_first + w as u64) {
                return Some(("reception-lost".into(), format!("reception {i} ({} ms) is in no record although arrival {j} ({} ms) closed its window of {w} ms", hist[i].ms, hist[j].ms)));
            }
        }
    }
    if nondecreasing {
        let mut last_first: Option<u64> = None;
        let mut by_frame: BTreeMap<&[u8], u64> = BTreeMap::new();
        for r in out {
            if let Some(p) = last_first {
                if r.ts_ms < p {
                    return Some(("records-out-of-order".into(), format!("a record first seen at {} ms left after one first seen at {p} ms", r.ts_ms)));
                }
            }
            last_first = Some(r.ts_ms);
            if let Some(prev) = by_frame.insert(&r.frame, r.ts_ms) {
                if r.ts_ms.abs_diff(prev) < w as u64 {
                    return Some(("same-frame-twice-in-window".into(), format!("two records of frame {} first seen at {prev} and {} ms, window {w} ms", hexs(&r.frame), r.ts_ms)));
                }
            }
        }
    }
    None
}

fn check_timed(al: &Alphabet, hist: &[Arr], w: u32, var: Variant, pause_after: usize, pause_ms: u64, rep: &Report) {
    let mut wit = hist_json(hist, w, var);
    wit["pause_after"] = json!(pause_after);
    wit["pause_ms"] = json!(pause_ms);
    match run_real_timed(al, hist, w, var, pause_after, pause_ms) {
        Err(p) => rep.violation(&format!("timed:panic:{}", panic_class(&p)), format!("deduplicate_messages panicked: {p}"), wit),
        Ok(out) => {
            if let Some((class, what)) = judge(al, hist, w, var, &out) {
                rep.violation(&format!("timed:{class}"), format!("with {pause_ms} ms of wall-clock silence after arrival {pause_after}: {what}"), wit);
            }
        }
    }
}

fn hist_json(hist: &[Arr], w: u32, var: Variant) -> Value {
    json!({"window_ms": w, "base_s": var.base_s, "multi_metadata": var.multi, "history": hist.iter().map(|a| json!([a.frame, a.rx, a.ms])).collect::<Vec<_>>()})
}

fn check_one(al: &Alphabet, hist: &[Arr], w: u32, var: Variant, rep: &Report, agree: &AtomicU64, disagree: &AtomicU64, oc: &mut [u64; 8]) {
    match run_real(al, hist, w, var) {
        Err(p) => rep.violation(&format!("panic:{}", panic_class(&p)), format!("deduplicate_messages panicked: {p}"), hist_json(hist, w, var)),
        Ok(out) => {
            oc[out.len().min(7)] += 1;
            if let Some((class, what)) = judge(al, hist, w, var, &out) {
                rep.violation(&class, what, hist_json(hist, w, var));
            }
            // slow consumer (on every 3rd history): same records, same order
            if hist.len() >= 2 && (hist.len() + hist[0].ms as usize + hist[hist.len() - 1].frame as usize) % 3 == 0 {
                match run_real_slow(al, hist, w, var, hist.len() / 2) {
                    Err(p) => rep.violation(&format!("slow-consumer:panic:{}", panic_class(&p)), format!("deduplicate_messages panicked with a slow consumer: {p}"), hist_json(hist, w, var)),
                    Ok(slow) => {
                        let key = |v: &[Rec]| v.iter().map(|r| (r.frame.clone(), r.ts_ms, r.ids.clone())).collect::<Vec<_>>();
                        if key(&slow) != key(&out) {
                            rep.violation("slow-consumer:differs", format!("with an output channel of one record and a slow consumer the task emits {} records, {} otherwise (or in another order / with other receptions)", slow.len(), out.len()), hist_json(hist, w, var));
                        }
                    }
                }
            }
            let mut a: Vec<(Vec<u8>, u64, Vec<u64>)> = out.iter().map(|r| (r.frame.clone(), r.ts_ms, r.ids.clone())).collect();
            let mut b: Vec<(Vec<u8>, u64, Vec<u64>)> = run_model(al, hist, w, var).iter().map(|r| (r.frame.clone(), r.ts_ms, r.ids.clone())).collect();
            a.sort();
            b.sort();
            if a == b {
                agree.fetch_add(1, Ordering::Relaxed);
            } else if disagree.fetch_add(1, Ordering::Relaxed) == 0 {
                let h = hist_json(hist, w, var).to_string();
                rep.warn(format!("reference model and implementation group differently on a history of {} arrivals, window {w} ms: {}{} (not a verdict: only the property's invariants decide)", hist.len(), &h[..h.len().min(300)], if h.len() > 300 { " ..." } else { "" }));
            }
        }
    }
}

/// Enumerate all histories of exactly `len` arrivals over the symbol list,
/// sharded by the first two symbols.
#[allow(clippy::too_many_arguments)]
fn explore(al: &Alphabet, syms: &[Arr], len: usize, windows: &[u32], monotone_only: bool, var: Variant, ctx: &Ctx, rep: &Report, agree: &AtomicU64, disagree: &AtomicU64, outcomes: &std::sync::Mutex<[u64; 8]>) -> (u64, u64) {
    let total = AtomicU64::new(0);
    let grouped = AtomicU64::new(0);
    let k = syms.len();
    let shard_depth = len.min(2);
    let shards = k.pow(shard_depth as u32);
    par_items(ctx.threads, shards, |sh| {
        let mut idx = vec![0usize; len];
        let mut s = sh;
        for d in 0..shard_depth {
            idx[d] = s % k;
            s /= k;
        }
        let mut hist: Vec<Arr> = idx.iter().map(|i| syms[*i]).collect();
        let mut cnt = 0u64;
        let mut grp = 0u64;
        let mut oc = [0u64; 8];
        'outer: loop {
            for (d, i) in idx.iter().enumerate() {
                hist[d] = syms[*i];
            }
            let mono = hist.windows(2).all(|p| p[0].ms <= p[1].ms);
            if !monotone_only || mono {
                let shares = (0..len).any(|a| (0..a).any(|b| hist[a].frame == hist[b].frame));
                for w in windows {
                    check_one(al, &hist, *w, var, rep, agree, disagree, &mut oc);
                    cnt += 1;
                    if shares {
                        grp += 1;
                    }
                }
            }
            if stopped() {
                break;
            }
            // odometer over positions shard_depth..len
            let mut d = len;
            loop {
                if d == shard_depth {
                    break 'outer;
                }
                d -= 1;
                idx[d] += 1;
                if idx[d] < k {
                    break;
                }
                idx[d] = 0;
            }
        }
        total.fetch_add(cnt, Ordering::Relaxed);
        grouped.fetch_add(grp, Ordering::Relaxed);
        let mut g = outcomes.lock().unwrap();
        for i in 0..8 {
            g[i] += oc[i];
        }
    });
    (total.load(Ordering::Relaxed), grouped.load(Ordering::Relaxed))
}

fn symbols(frames: &[u8], rxs: &[u8], stamps: &[u64]) -> Vec<Arr> {
    let mut v = Vec::new();
    for &ms in stamps {
        for &f in frames {
            for &r in rxs {
                v.push(Arr { frame: f, rx: r, ms });
            }
        }
    }
    v
}

pub fn run(ctx: &Ctx, rep: &Report) {
    let al = alphabet();
    if al.decodable[..4] != [true, true, true, false] || al.decodable[4..16].iter().any(|d| !d) {
        rep.violation("harness:alphabet", format!("frame alphabet decodability is {:?}, expected [true,true,true,false]", al.decodable), json!({}));
        return;
    }
    let all_stamps: [u64; 10] = [0, 125, 250, 375, 450, 500, 625, 900, 1000, 10_000];
    for ms in all_stamps.iter().chain([700u64, 449, 451].iter()) {
        let t = *ms as f64 / 1e3;
        if (t * 1e3) as u128 != *ms as u128 {
            rep.violation("harness:stamp-not-exact", format!("{ms} ms is not exact in floating point"), json!({}));
            return;
        }
    }
    rep.set_rule("all arrival histories (frame, receiver, timestamp) up to a length, for each window length; non-trivial = histories in which at least two receptions carry the same frame");
    rep.assume("timestamps are taken from a grid that is exact in binary floating point, so milliseconds are unambiguous");
    rep.assume("groups still open when the input ends need not be emitted (the property speaks of closed windows)");
    rep.assume("a reception may carry several metadata entries; they stay together, in order");
    let agree = AtomicU64::new(0);
    let disagree = AtomicU64::new(0);
    let outcomes = std::sync::Mutex::new([0u64; 8]);
    let mut total = 0u64;
    let mut nontriv = 0u64;
    let mut bound = Vec::new();
    const UNIX: u64 = 1_700_000_000;
    // realistic Unix timestamps must be exact as well
    for ms in all_stamps {
        let t = UNIX as f64 + ms as f64 / 1e3;
        if (t * 1e3) as u128 != (UNIX * 1000 + ms) as u128 {
            rep.violation("harness:stamp-not-exact", format!("{UNIX} s + {ms} ms is not exact in floating point"), json!({}));
            return;
        }
    }
    let plain = Variant { base_s: 0, multi: false };
    let unix = Variant { base_s: UNIX, multi: false };
    let multi = Variant { base_s: UNIX, multi: true };
    const NEVER: u32 = 4_000_000_000; // a window that never closes
    // plan: (name, frames, receivers, stamps, windows, max length, monotone only, variant)
    type Plan = (&'static str, Vec<u8>, Vec<u8>, Vec<u64>, Vec<u32>, usize, bool, Variant);
    let plans: Vec<Plan> = if ctx.thorough() {
        vec![
            ("2 frames+undecodable, any order", vec![0, 1, 3], vec![0, 1], vec![0, 250, 450, 500, 1000], vec![0, 250, 450, 500], 5, false, plain),
            ("3 frames, non-decreasing", vec![0, 1, 2], vec![0, 1], all_stamps.to_vec(), vec![0, 250, 450, 500], 5, true, plain),
            ("2 frames, dense stamps, any order", vec![0, 1], vec![0, 1], vec![0, 125, 250, 375, 449, 450, 451, 500, 625, 700, 900], vec![450], 4, false, plain),
            ("1 frame + undecodable, any order, deep", vec![0, 3], vec![0], vec![0, 250, 450, 500, 1000], vec![0, 250, 450, NEVER], 7, false, plain),
            ("Unix-time stamps: 2 frames+undecodable, any order", vec![0, 1, 3], vec![0, 1], vec![0, 250, 450, 500, 1000], vec![0, 250, 450], 5, false, unix),
            ("Unix-time stamps, two metadata entries on receiver 2: 3 frames, non-decreasing", vec![0, 1, 2], vec![0, 1], vec![0, 250, 450, 500, 900, 10_000], vec![250, 450], 5, true, multi),
            ("3 receivers, 2 frames, any order", vec![0, 1], vec![0, 1, 2], vec![0, 250, 450, 1000], vec![0, 450], 5, false, multi),
            ("look-alike frames (trailer, zero-padded, doubled, empty, all-zero), any order", vec![0, 16, 17, 18, 19, 20], vec![0, 1], vec![0, 250, 450, 1000], vec![0, 250, 450], 4, false, plain),
        ]
    } else {
        vec![
            ("2 frames+undecodable, any order", vec![0, 1, 3], vec![0, 1], vec![0, 250, 450, 500, 1000], vec![0, 250, 450], 4, false, plain),
            ("3 frames, non-decreasing", vec![0, 1, 2], vec![0, 1], vec![0, 250, 450, 500, 900, 10_000], vec![250, 450], 4, true, plain),
            ("1 frame + undecodable, any order, deep", vec![0, 3], vec![0], vec![0, 250, 450, 1000], vec![0, 450, NEVER], 6, false, plain),
            ("Unix-time stamps: 2 frames+undecodable, any order", vec![0, 1, 3], vec![0, 1], vec![0, 250, 450, 500, 1000], vec![0, 450], 4, false, unix),
            ("Unix-time stamps, two metadata entries on receiver 2: 3 frames, non-decreasing", vec![0, 1, 2], vec![0, 1], vec![0, 250, 450, 500, 10_000], vec![250, 450], 4, true, multi),
            ("look-alike frames (trailer, zero-padded, doubled, empty, all-zero), any order", vec![0, 16, 17, 18, 19, 20], vec![0, 1], vec![0, 250, 450, 1000], vec![0, 450], 3, false, plain),
        ]
    };
    for (name, frames, rxs, stamps, windows, maxlen, mono, var) in plans {
        let syms = symbols(&frames, &rxs, &stamps);
        let mut part_total = 0u64;
        for len in 1..=maxlen {
            let (t, g) = explore(&al, &syms, len, &windows, mono, var, ctx, rep, &agree, &disagree, &outcomes);
            part_total += t;
            nontriv += g;
        }
        total += part_total;
        rep.part(name, part_total, json!({"symbols": syms.len(), "max_len": maxlen, "windows_ms": windows, "stamps_ms": stamps, "base_s": var.base_s, "multi_metadata": var.multi}));
        bound.push(format!("{name}: length <= {maxlen} over {} symbols x {} windows", syms.len(), windows.len()));
    }
    // long histories: every pattern of one or two arrivals (frame, receiver, offset within the period) repeated
    // 8 / 40 / 257 times with a period of 100 / 450 / 1000 ms (many receptions per group, many groups, counters)
    {
        let psyms = symbols(&[0, 1, 3], &[0, 1], &[0, 50]);
        let mut pats: Vec<Vec<Arr>> = Vec::new();
        for a in &psyms {
            pats.push(vec![*a]);
            for b in &psyms {
                pats.push(vec![*a, *b]);
                if ctx.thorough() {
                    for c in &psyms {
                        pats.push(vec![*a, *b, *c]);
                    }
                }
            }
        }
        let cnt = AtomicU64::new(0);
        let grp = AtomicU64::new(0);
        par_items(ctx.threads, pats.len(), |i| {
            let mut oc = [0u64; 8];
            for times in [8usize, 40, 257] {
                for period in [100u64, 450, 1000] {
                    let mut hist: Vec<Arr> = Vec::with_capacity(times * pats[i].len());
                    for r in 0..times {
                        for a in &pats[i] {
                            hist.push(Arr { frame: a.frame, rx: a.rx, ms: a.ms + r as u64 * period });
                        }
                    }
                    // keep the arrival order of the pattern; stamps may step back by 50 ms inside a period
                    for w in [250u32, 450] {
                        for var in [plain, multi] {
                            check_one(&al, &hist, w, var, rep, &agree, &disagree, &mut oc);
                            cnt.fetch_add(1, Ordering::Relaxed);
                            grp.fetch_add(1, Ordering::Relaxed);
                        }
                    }
                }
            }
        });
        let c = cnt.load(Ordering::Relaxed);
        total += c;
        nontriv += grp.load(Ordering::Relaxed);
        rep.part("periodic long histories (patterns repeated up to 257 times)", c, json!({"patterns": pats.len(), "longest": 257 * if ctx.thorough() { 3 } else { 2 }}));
        bound.push(format!("periodic: {} patterns x 3 repeat counts x 3 periods x 2 windows x 2 variants", pats.len()));
    }
    // many groups open at once: k distinct frames (k = 1..=12) arrive 10 ms apart, optionally one of them is
    // received again, then one or two late arrivals close everything (bounded work per arrival, caps on open groups)
    {
        let mut fam: Vec<Vec<Arr>> = Vec::new();
        for k in 1..=12usize {
            for dup in 0..=k {
                for closers in 1..=2 {
                    let mut h: Vec<Arr> = (0..k).map(|i| Arr { frame: 4 + i as u8, rx: 0, ms: 10 * i as u64 }).collect();
                    if dup > 0 {
                        h.push(Arr { frame: 4 + (dup - 1) as u8, rx: 1, ms: 10 * k as u64 });
                    }
                    for c in 0..closers {
                        h.push(Arr { frame: 0, rx: 0, ms: 2000 + 1000 * c as u64 });
                    }
                    fam.push(h);
                }
            }
        }
        // bursts of expirations: k groups (k on either side of 32, 64, 128; 200) open 1 ms apart, one arrival after a gap
        // closes them all at once, and the very next arrival (1 ms later, the other receiver) is the newest / the
        // middle / the oldest of those frames again: it must open a group of its own
        for k in [31usize, 32, 33, 63, 64, 65, 66, 127, 128, 129, 200] {
            for again in [k - 1, k / 2, 0] {
                let mut h: Vec<Arr> = (0..k).map(|i| Arr { frame: 21 + i as u8, rx: 0, ms: i as u64 }).collect();
                h.push(Arr { frame: 0, rx: 0, ms: 10_000 });
                h.push(Arr { frame: 21 + again as u8, rx: 1, ms: 10_001 });
                h.push(Arr { frame: 1, rx: 0, ms: 20_000 });
                h.push(Arr { frame: 2, rx: 0, ms: 30_000 });
                fam.push(h);
            }
        }
        let mut oc = [0u64; 8];
        let mut c = 0u64;
        for h in &fam {
            for w in [250u32, 450] {
                for var in [plain, multi] {
                    check_one(&al, h, w, var, rep, &agree, &disagree, &mut oc);
                    c += 1;
                }
            }
        }
        total += c;
        nontriv += c;
        rep.part("fan-out: up to 12 groups open at once; bursts of up to 200 expirations at one arrival", c, json!({"histories": fam.len()}));
        bound.push(format!("fan-out: {} histories with 1..=12 distinct frames open at once and bursts of 31..200 expirations at one arrival", fam.len()));
    }
    // wall-clock silence: every history of two or three arrivals over two frames (the first one is frame 0) with
    // non-decreasing stamps from {0, 10, 1000, 2000} ms, a real pause of 1.2 s (thorough: also 3.5 s) after the first
    // or the second arrival. The runs sleep, they do not compute: 64 at a time.
    {
        let mut cases: Vec<(Vec<Arr>, usize, u64)> = Vec::new();
        let stamps = [0u64, 10, 1000, 2000];
        let pauses: &[u64] = if ctx.thorough() { &[1200, 3500] } else { &[1200] };
        for f1 in 0..2u8 {
            for (i1, s1) in stamps.iter().enumerate() {
                let h2 = vec![Arr { frame: 0, rx: 0, ms: 0 }, Arr { frame: f1, rx: 1, ms: *s1 }];
                for p in pauses {
                    cases.push((h2.clone(), 0, *p));
                }
                for f2 in 0..2u8 {
                    for s2 in &stamps[i1..] {
                        let mut h3 = h2.clone();
                        h3.push(Arr { frame: f2, rx: 0, ms: *s2 });
                        for p in pauses {
                            cases.push((h3.clone(), 0, *p));
                            cases.push((h3.clone(), 1, *p));
                        }
                    }
                }
            }
        }
        let t0 = std::time::Instant::now();
        par_items(64, cases.len(), |i| {
            let (h, pa, pm) = &cases[i];
            check_timed(&al, h, 450, unix, *pa, *pm, rep);
        });
        let c = cases.len() as u64;
        total += c;
        nontriv += c;
        rep.part("wall-clock silence between arrivals (real runtime, real sleeps)", c, json!({"pauses_ms": pauses, "window_ms": 450, "elapsed_s": t0.elapsed().as_secs_f64()}));
        bound.push(format!("wall-clock pauses: {} histories of 2-3 arrivals x pause position x {:?} ms", cases.len(), pauses));
    }
    rep.sample(hist_json(&[Arr { frame: 0, rx: 0, ms: 0 }, Arr { frame: 0, rx: 1, ms: 250 }, Arr { frame: 1, rx: 0, ms: 450 }, Arr { frame: 0, rx: 0, ms: 500 }], 450, multi));
    rep.sample(json!({"emitted_for_sample": run_real(&al, &[Arr { frame: 0, rx: 0, ms: 0 }, Arr { frame: 0, rx: 1, ms: 250 }, Arr { frame: 1, rx: 0, ms: 450 }, Arr { frame: 0, rx: 0, ms: 500 }], 450, multi).map(|v| v.iter().map(|r| json!({"after_arrival": r.step, "timestamp_ms": r.ts_ms, "receptions": r.ids})).collect::<Vec<_>>()).unwrap_or_default()}));
    let oc = outcomes.lock().unwrap();
    for (i, c) in oc.iter().enumerate() {
        if *c > 0 {
            rep.outcome(&format!("{i} records emitted"), *c);
        }
    }
    rep.note("model_agreement", json!({"agree": agree.load(Ordering::Relaxed), "disagree": disagree.load(Ordering::Relaxed)}));
    rep.eval(total);
    rep.trans(total);
    rep.state(total);
    rep.nontriv(nontriv);
    rep.set_bound(&bound.join("; "));
}

pub fn replay(w: &Value, rep: &Report) {
    let al = alphabet();
    let win = w["window_ms"].as_u64().unwrap_or(450) as u32;
    let hist: Vec<Arr> = w["history"]
        .as_array()
        .map(|a| a.iter().map(|x| Arr { frame: x[0].as_u64().unwrap_or(0) as u8, rx: x[1].as_u64().unwrap_or(0) as u8, ms: x[2].as_u64().unwrap_or(0) }).collect())
        .unwrap_or_default();
    let agree = AtomicU64::new(0);
    let disagree = AtomicU64::new(0);
    let mut oc = [0u64; 8];
    let var = Variant { base_s: w["base_s"].as_u64().unwrap_or(0), multi: w["multi_metadata"].as_bool().unwrap_or(false) };
    if let Some(pm) = w.get("pause_ms").and_then(|x| x.as_u64()) {
        check_timed(&al, &hist, win, var, w["pause_after"].as_u64().unwrap_or(0) as usize, pm, rep);
    } else {
        check_one(&al, &hist, win, var, rep, &agree, &disagree, &mut oc);
    }
    rep.trans(1);
    rep.state(1);
    rep.sample(w.clone());
    rep.outcome("replayed", 1);
}

// E2 `jetdrv`: explorer compiled into the real jet1090 binary (see DESIGN.md 2.1).
// This file is the body of `mod verif_driver` in crates/jet1090/src/main.rs.
#[allow(dead_code)]
mod common {
    include!("../sweep/src/common.rs");
}
mod frames {
    include!("../sweep/src/frames.rs");
}
mod c10 {
    include!("c10.rs");
}
mod c11 {
    include!("c11.rs");
}
mod c12 {
    include!("c12.rs");
}
mod c16 {
    include!("c16.rs");
}
mod c17 {
    include!("c17.rs");
}

use common::*;

pub async fn maybe_run() -> Option<i32> {
    let id = std::env::var("JET1090_VERIF").ok()?;
    if id == "C16:serials" {
        silence_panics();
        c16::print_serial_digest();
        return Some(0);
    }
    if id == "C16:cli" {
        silence_panics();
        c16::print_cli_specs();
        return Some(0);
    }
    let code = std::thread::spawn(move || run(&id)).join().unwrap_or(2);
    Some(code)
}

fn run(id: &str) -> i32 {
    let tier = match std::env::var("JET1090_VERIF_TIER").as_deref() {
        Ok("thorough") => Tier::Thorough,
        _ => Tier::Quick,
    };
    let seed = std::env::var("JET1090_VERIF_SEED").ok().and_then(|s| s.parse().ok()).unwrap_or(0u64);
    let threads = std::thread::available_parallelism().map(|n| n.get()).unwrap_or(4);
    let out = std::env::var("JET1090_VERIF_OUT").ok();
    let replay = std::env::var("JET1090_VERIF_REPLAY").ok();
    silence_panics();
    let dim = apply_dim();
    let ctx = Ctx { tier, seed, threads, dim };
    // leaked: the hang watchdog keeps a reference for the life of the process
    let rep: &'static Report = Box::leak(Box::new(Report::new(id)));
    {
        let out = out.clone();
        let _ = EMERGENCY_EXIT.set(Box::new(move || {
            let j = rep.to_json(tier, seed);
            let text = serde_json::to_string_pretty(&j).unwrap_or_default();
            match &out {
                Some(p) => {
                    let _ = std::fs::write(p, text);
                }
                None => println!("{text}"),
            }
            std::process::exit(0);
        }));
    }
    // a call into the subject (every one is made through common::guarded) that does not return within 30 s
    start_watchdog(rep, "hang", 30);
    if let Some(p) = replay {
        let text = std::fs::read_to_string(&p).expect("replay file");
        let v: serde_json::Value = serde_json::from_str(&text).expect("replay json");
        let w = v.get("witness").cloned().unwrap_or(v);
        let r1 = Report::new(id);
        if !dispatch_replay(id, &w, &r1) || !dispatch_replay(id, &w, rep) {
            return 2;
        }
        let a = r1.to_json(tier, seed)["violations"].to_string();
        let b = rep.to_json(tier, seed)["violations"].to_string();
        if a != b {
            eprintln!("replay diverged between two runs:\n{a}\n{b}");
            return 2;
        }
        rep.eval(1);
        rep.note("replay", serde_json::json!(p));
    } else if !dispatch(id, &ctx, rep) {
        return 2;
    }
    let j = rep.to_json(tier, seed);
    let text = serde_json::to_string_pretty(&j).unwrap();
    match out {
        Some(p) => std::fs::write(&p, text).expect("out file"),
        None => println!("{text}"),
    }
    0
}

fn dispatch(id: &str, ctx: &Ctx, rep: &Report) -> bool {
    match id {
        "C10" => c10::run(ctx, rep),
        "C11" => c11::run(ctx, rep),
        "C12" => c12::run(ctx, rep),
        "C07" => c12::run_c07(ctx, rep),
        "C16" => c16::run(ctx, rep),
        "C17" => c17::run(ctx, rep),
        _ => {
            eprintln!("unknown property {id}");
            return false;
        }
    }
    true
}

fn dispatch_replay(id: &str, w: &serde_json::Value, rep: &Report) -> bool {
    match id {
        "C10" => c10::replay(w, rep),
        "C11" => c11::replay(w, rep),
        "C12" => c12::replay(w, rep),
        "C07" => c12::replay_c07(w, rep),
        "C16" => c16::replay(w, rep),
        "C17" => c17::replay(w, rep),
        _ => {
            eprintln!("unknown property {id}");
            return false;
        }
    }
    true
}

// C11 — output filters: complete enumeration of (record kind x address x
// aircraft-filter shape x df-filter shape) through the real Filters::is_in,
// judged against df / icao24 of serde_json::to_value(&record).

use super::common::*;
use super::frames::*;
use crate::filters::Filters;
use rs1090::decode::{Message, TimedMessage};
use serde_json::{json, Value};

pub struct Rec {
    pub kind: String,
    pub frame: Vec<u8>,
    /// the 24 bits of the parity / PI field as transmitted
    pub pi_bits: u32,
}

fn me_samples() -> Vec<(&'static str, [u8; 7])> {
    vec![
        ("bds08", me_bds08(4, 0, &cs_codes("AFR123"))),
        ("bds05", me_bds05(11, 0, 0, ac12_q(35000), 0, 0, 93000, 51372)),
        ("bds06", me_bds06(7, 20, 1, 64, 0, 1, 1000, 2000)),
        ("bds09", me_bds09_gs(1, 0, 0, 0, 0, 100, 1, 200, 0, 0, 10, 0, 5)),
        ("bds61", me_bds61(1, 0, id13(7, 7, 0, 0))),
        ("tc0", [0u8; 7]),
    ]
}

pub fn records(addrs: &[u32]) -> Vec<Rec> {
    let mut v = Vec::new();
    let last3 = |f: &[u8]| -> u32 { ((f[f.len() - 3] as u32) << 16) | ((f[f.len() - 2] as u32) << 8) | f[f.len() - 1] as u32 };
    for &a in addrs {
        let mut push = |kind: String, frame: Vec<u8>| {
            let pi_bits = last3(&frame);
            v.push(Rec { kind, frame, pi_bits });
        };
        push("DF0".into(), df0(0, 0, 3, 3, ac13_q(12000), a));
        push("DF4".into(), df4_5(4, 0, 0, 0, ac13_q(30000), a));
        push("DF5".into(), df4_5(5, 1, 0, 0, id13(1, 2, 3, 4), a));
        push("DF11".into(), df11(5, a, 0));
        push("DF11:ii=5".into(), df11(5, a, 5));
        push("DF16".into(), df16(0, 3, 3, ac13_q(12000), &[0x30, 0, 0, 0, 0, 0, 0], a));
        for (n, me) in me_samples() {
            push(format!("DF17:{n}"), df17(5, a, &me, 0));
            for cf in 0..8u8 {
                push(format!("DF18:cf={cf}:{n}"), df18(cf, a, &me, 0));
            }
        }
        push("DF20:empty".into(), df20_21(20, 0, 0, 0, ac13_q(30000), &[0u8; 7], a));
        push("DF20:bds20".into(), df20_21(20, 0, 0, 0, ac13_q(30000), &mb_bds20(&cs_codes("DLH4AB")), a));
        push("DF21:empty".into(), df20_21(21, 0, 0, 0, id13(1, 0, 0, 0), &[0u8; 7], a));
        push("DF21:bds20".into(), df20_21(21, 0, 0, 0, id13(1, 0, 0, 0), &mb_bds20(&cs_codes("DLH4AB")), a));
    }
    v
}

pub fn timed(frame: &[u8], decode: bool) -> TimedMessage {
    TimedMessage {
        timestamp: 1.0,
        frame: frame.to_vec(),
        message: if decode { Message::try_from(frame).ok() } else { None },
        metadata: vec![],
        decode_time: None,
        ..Default::default()
    }
}

const ADDR_FORMATS: [&str; 9] = ["0", "4", "5", "11", "16", "17", "18", "20", "21"];

/// One case; returns (expected, got) or a panic message
fn case(t: &TimedMessage, shown: &Option<(String, u32)>, dff: &Option<Vec<String>>, acf: &Option<Vec<u32>>) -> Result<(bool, bool), String> {
    // built the way a user builds it (the deserialised configuration form), so that an additional optional
    // member of Filters does not stop this file from compiling
    let mut cfg = serde_json::Map::new();
    if let Some(v) = dff { cfg.insert("df_filter".into(), serde_json::json!(v)); }
    if let Some(v) = acf { cfg.insert("aircraft_filter".into(), serde_json::json!(v.iter().map(|a| format!("{:06x}", a)).collect::<Vec<_>>())); }
    let f: Filters = serde_json::from_value(serde_json::Value::Object(cfg)).map_err(|e| format!("harness: Filters from its configuration form: {e}"))?;
    let got = guarded(|| Filters::is_in(&f, t))?;
    let exp = match shown {
        None => false,
        Some((df, icao)) => {
            let df_ok = match dff {
                None => true,
                Some(v) => v.is_empty() || v.iter().any(|x| x == df),
            };
            let ac_ok = match acf {
                None => true,
                Some(v) => v.is_empty() || v.contains(icao),
            };
            df_ok && ac_ok
        }
    };
    Ok((exp, got))
}

fn shown_of(t: &TimedMessage) -> Result<Option<(String, u32)>, String> {
    if t.message.is_none() {
        return Ok(None);
    }
    let v = serde_json::to_value(t).map_err(|e| format!("record does not serialise: {e}"))?;
    let df = v.get("df").and_then(|x| x.as_str()).ok_or("no df in JSON")?.to_string();
    let icao = v.get("icao24").and_then(|x| x.as_str()).ok_or("no icao24 in JSON")?;
    let icao = u32::from_str_radix(icao, 16).map_err(|e| e.to_string())?;
    Ok(Some((df, icao)))
}

fn filter_shapes(shown_df: &str, shown: u32, pi_bits: u32) -> (Vec<(String, Option<Vec<String>>)>, Vec<(String, Option<Vec<u32>>)>) {
    let other_df = if shown_df == "11" { "17" } else { "11" }.to_string();
    let dffs = vec![
        ("absent".to_string(), None),
        ("empty".to_string(), Some(vec![])),
        ("shown".to_string(), Some(vec![shown_df.to_string()])),
        ("other".to_string(), Some(vec![other_df.clone()])),
        ("other+shown".to_string(), Some(vec![other_df.clone(), shown_df.to_string()])),
        ("all-others".to_string(), Some(ADDR_FORMATS.iter().filter(|d| **d != shown_df).map(|d| d.to_string()).collect())),
        ("19+24".to_string(), Some(vec!["19".to_string(), "24".to_string()])),
    ];
    let other = shown ^ 0x00ff00;
    let acfs = vec![
        ("absent".to_string(), None),
        ("empty".to_string(), Some(vec![])),
        ("shown".to_string(), Some(vec![shown])),
        ("other".to_string(), Some(vec![other])),
        ("parity-field".to_string(), Some(vec![pi_bits])),
        ("other+shown".to_string(), Some(vec![other, shown])),
        ("low-bit".to_string(), Some(vec![shown ^ 1])),
        ("high-bit".to_string(), Some(vec![shown ^ 0x800000])),
        ("other+parity-field".to_string(), Some(vec![other, pi_bits])),
        // entries wider than 24 bits (the config accepts any u32): not the displayed 24-bit address
        ("shown+2^24".to_string(), Some(vec![shown | 0x0100_0000])),
        ("shown+ff<<24".to_string(), Some(vec![shown | 0xff00_0000, other])),
    ];
    // lists of three and four addresses in every order (membership must not depend on the order)
    let mut acfs = acfs;
    let lo = shown.wrapping_sub(0x1234) & 0xffffff;
    let hi = (shown + 0x4321) & 0xffffff;
    let perm3 = |a: u32, b: u32, c: u32| vec![vec![a, b, c], vec![a, c, b], vec![b, a, c], vec![b, c, a], vec![c, a, b], vec![c, b, a]];
    for (i, l) in perm3(lo, shown, hi).into_iter().enumerate() {
        acfs.push((format!("three-with-shown#{i}"), Some(l)));
    }
    for (i, l) in perm3(lo, other, hi).into_iter().enumerate() {
        acfs.push((format!("three-without-shown#{i}"), Some(l)));
    }
    for (i, l) in [vec![hi, lo, shown, other], vec![shown, hi, other, lo], vec![other, hi, lo, shown], vec![hi, other, lo, shown ^ 2]].into_iter().enumerate() {
        acfs.push((format!("four#{i}"), Some(l)));
    }
    let mut dffs = dffs;
    // the filter holds the texts the user gave: a different spelling of the number is a different text
    dffs.push(("zero-padded".to_string(), Some(vec![format!("0{shown_df}")])));
    dffs.push(("with-space".to_string(), Some(vec![format!("{shown_df} ")])));
    dffs.push(("prefix-of-shown".to_string(), Some(vec![shown_df[..shown_df.len() - 1].to_string(), format!("{shown_df}0")])));
    dffs.push(("unsorted-with-shown".to_string(), Some(vec!["21".to_string(), shown_df.to_string(), "0".to_string(), "5".to_string()])));
    (dffs, acfs)
}

/// One filter configuration held for a whole STREAM of records, as in the decoder loop (the exploration above builds a
/// fresh configuration for every record): lists of 1 to 40 addresses, fleets of up to 24 aircraft heard in many
/// orders, every call judged by membership. Whatever the filter remembers between records (a cache of recent
/// decisions, a sorted copy made at first use) is exercised here.
fn streams(rep: &Report) -> u64 {
    let fleet: Vec<u32> = (0..24u32).map(|i| 0x738500 + 0x000111 * i + ((i % 3) << 20)).collect();
    let kinds: [fn(u32) -> Vec<u8>; 4] = [
        |a| df17(5, a, &me_bds09_gs(1, 0, 0, 0, 0, 100, 1, 200, 0, 0, 10, 0, 5), 0),
        |a| df4_5(4, 0, 0, 0, ac13_q(30000), a),
        |a| df11(5, a, 0),
        |a| df20_21(20, 0, 0, 0, ac13_q(30000), &[0u8; 7], a),
    ];
    let mut calls = 0u64;
    for m in [1usize, 3, 8, 9, 12, 17, 40] {
        // the list: every second aircraft of the fleet, padded with addresses that nobody uses
        let mut list: Vec<u32> = fleet.iter().step_by(2).cloned().take(m).collect();
        let mut pad = 0x0a0000u32;
        while list.len() < m {
            list.push(pad);
            pad += 0x313;
        }
        for dff in [None, Some(vec!["17".to_string(), "4".to_string(), "11".to_string(), "20".to_string()])] {
            let mut cfg = serde_json::Map::new();
            cfg.insert("aircraft_filter".into(), json!(list.iter().map(|a| format!("{a:06x}")).collect::<Vec<_>>()));
            if let Some(v) = &dff {
                cfg.insert("df_filter".into(), json!(v));
            }
            let f: Filters = match serde_json::from_value(Value::Object(cfg)) {
                Ok(f) => f,
                Err(e) => {
                    rep.violation("harness:filters", format!("Filters from its configuration form: {e}"), json!({}));
                    return calls;
                }
            };
            // orders: for every n, the first n aircraft once each, the n-th again, the first again, all of them in
            // reverse, and the n-th a third time; then every sequence of length 5 over three aircraft
            let mut orders: Vec<Vec<usize>> = Vec::new();
            for n in 1..=fleet.len() {
                let mut o: Vec<usize> = (0..n).collect();
                o.push(n - 1);
                o.push(0);
                o.extend((0..n).rev());
                o.push(n - 1);
                orders.push(o);
            }
            for code in 0..243usize {
                orders.push((0..5).map(|d| [0usize, 1, 23][(code / 3usize.pow(d)) % 3]).collect());
            }
            for (oi, o) in orders.iter().enumerate() {
                for (pos, ai) in o.iter().enumerate() {
                    let a = fleet[*ai];
                    let t = timed(&kinds[(pos + oi) % kinds.len()](a), true);
                    let exp = list.contains(&a);
                    calls += 1;
                    match guarded(|| Filters::is_in(&f, &t)) {
                        Err(p) => {
                            rep.violation(&format!("panic:{}", panic_class(&p)), format!("is_in panicked: {p}"), json!({"stream": true, "list": m, "order": oi, "pos": pos}));
                            return calls;
                        }
                        Ok(got) if got != exp => {
                            let df = t.frame[0] >> 3;
                            rep.violation(&format!("stream:DF{df}:wrongly-{}", if got { "kept" } else { "dropped" }), format!("one configuration (aircraft_filter of {m} addresses, df_filter {dff:?}), record {pos} of the stream (address {a:06x}, {}listed): is_in={got}", if exp { "" } else { "not " }), json!({"stream": true, "list": m, "order": oi, "pos": pos}));
                            return calls;
                        }
                        Ok(_) => {}
                    }
                }
            }
        }
    }
    calls
}

pub fn run(ctx: &Ctx, rep: &Report) {
    let addrs: Vec<u32> = if ctx.thorough() {
        let mut v = vec![0x000000, 0xffffff, 0x000001, 0x800000, 0x4840d6, 0xa00001, 0x3c6444, 0x7fffff];
        for i in 0..24 {
            v.push(1 << i);
        }
        v
    } else {
        vec![0x000000, 0xffffff, 0x000001, 0x800000, 0x4840d6, 0xa00001, 0x3c6444, 0x7fffff]
    };
    rep.set_rule("every (record kind, address, df-filter shape, aircraft-filter shape); non-trivial = cases where the filter lists are present and non-empty");
    let recs = records(&addrs);
    let mut cases = 0u64;
    let mut nontriv = 0u64;
    for r in &recs {
        for decode in [true, false] {
            let t = timed(&r.frame, decode);
            if decode && t.message.is_none() {
                rep.violation("harness:frame-rejected", format!("reference frame {} ({}) is not accepted by the decoder", hexs(&r.frame), r.kind), json!({"frame": hexs(&r.frame)}));
                continue;
            }
            let shown = match shown_of(&t) {
                Ok(s) => s,
                Err(e) => {
                    rep.violation("harness:json", format!("{}: {e}", r.kind), json!({"frame": hexs(&r.frame)}));
                    continue;
                }
            };
            let (sdf, sic) = shown.clone().unwrap_or(("17".to_string(), 0x123456));
            let (dffs, acfs) = filter_shapes(&sdf, sic, r.pi_bits);
            for (dn, dff) in &dffs {
                for (an, acf) in &acfs {
                    cases += 1;
                    rep.trans(1);
                    if dff.as_ref().is_some_and(|v| !v.is_empty()) || acf.as_ref().is_some_and(|v| !v.is_empty()) {
                        nontriv += 1;
                    }
                    let kind_df = r.kind.split(':').next().unwrap_or("");
                    match case(&t, &shown, dff, acf) {
                        Err(p) => rep.violation(&format!("panic:{}", panic_class(&p)), format!("is_in panicked: {p}"), witness(r, decode, dff, acf)),
                        Ok((exp, got)) => {
                            rep.outcome(if got { "kept" } else { "dropped" }, 1);
                            if exp != got {
                                let _ = (dn, an, kind_df);
                                let class = if !decode { "undecoded-kept".to_string() } else { format!("DF{sdf}:wrongly-{}", if got { "kept" } else { "dropped" }) };
                                rep.violation(
                                    &class,
                                    format!("{} shown as df={sdf} icao24={sic:06x} (parity field {:06x}): is_in={got}, expected {exp} with df_filter={dff:?} aircraft_filter={:?}", r.kind, r.pi_bits, acf.as_ref().map(|v| v.iter().map(|a| format!("{a:06x}")).collect::<Vec<_>>())),
                                    witness(r, decode, dff, acf),
                                );
                            }
                        }
                    }
                }
            }
        }
    }
    for r in recs.iter().take(3) {
        rep.sample(json!({"kind": r.kind, "frame": hexs(&r.frame)}));
    }
    rep.eval(cases);
    rep.nontriv(nontriv);
    rep.state(recs.len() as u64 * 2);
    rep.part("filters", cases, json!({"records": recs.len(), "addresses": addrs.len()}));
    let sc = streams(rep);
    rep.part("one configuration held for a stream of records (lists of 1..40 addresses, fleets of up to 24 aircraft in many orders)", sc, json!({}));
    rep.trans(sc);
    rep.eval(sc);
    rep.nontriv(sc);
    rep.set_bound(&format!("{} record kinds x {} addresses x decoded/undecoded x 11 df-filter shapes x 25 aircraft-filter shapes (incl. lists of 3 in all 6 orders)", recs.len() / addrs.len(), addrs.len()));
    rep.assume("filter lists are judged by membership only (order and duplicates are not part of the property)");
}

fn witness(r: &Rec, decode: bool, dff: &Option<Vec<String>>, acf: &Option<Vec<u32>>) -> Value {
    json!({"frame": hexs(&r.frame), "decoded": decode, "df_filter": dff, "aircraft_filter": acf.as_ref().map(|v| v.iter().map(|a| format!("{a:06x}")).collect::<Vec<_>>())})
}

pub fn replay(w: &Value, rep: &Report) {
    if w["stream"].as_bool() == Some(true) {
        // the streams are deterministic: the whole family is run again
        let n = streams(rep);
        rep.trans(n);
        rep.state(1);
        rep.sample(w.clone());
        rep.outcome("replayed", 1);
        return;
    }
    let frame = unhex(w["frame"].as_str().unwrap_or(""));
    let decode = w["decoded"].as_bool().unwrap_or(true);
    let dff: Option<Vec<String>> = w["df_filter"].as_array().map(|a| a.iter().filter_map(|x| x.as_str().map(String::from)).collect());
    let acf: Option<Vec<u32>> = w["aircraft_filter"].as_array().map(|a| a.iter().filter_map(|x| x.as_str().and_then(|s| u32::from_str_radix(s, 16).ok())).collect());
    let t = timed(&frame, decode);
    rep.trans(1);
    rep.state(1);
    rep.sample(w.clone());
    let shown = match shown_of(&t) {
        Ok(s) => s,
        Err(e) => {
            rep.violation("harness:json", e, w.clone());
            return;
        }
    };
    match case(&t, &shown, &dff, &acf) {
        Err(p) => rep.violation(&format!("panic:{}", panic_class(&p)), format!("is_in panicked: {p}"), w.clone()),
        Ok((exp, got)) => {
            rep.outcome(if got { "kept" } else { "dropped" }, 1);
            if exp != got {
                let class = match &shown {
                    None => "undecoded-kept".to_string(),
                    Some((sdf, _)) => format!("DF{sdf}:wrongly-{}", if got { "kept" } else { "dropped" }),
                };
                rep.violation(&class, format!("shown {shown:?}: is_in={got}, expected {exp}"), w.clone());
            }
        }
    }
}

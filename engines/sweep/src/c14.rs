//! C14 — registration lookup: total, injective, country-consistent over all 2^24 addresses.

use crate::common::*;
use regex::Regex;
use rs1090::data::patterns::aircraft_information;
use rs1090::data::tail::tail;
use serde_json::{json, Value};
use std::collections::HashMap;
use std::sync::Mutex;

struct Block {
    start: u32,
    end: u32,
    country: String,
    pattern: Option<Regex>,
    pattern_src: Option<String>,
    cats: Vec<Regex>,
}

fn repo_root() -> String {
    std::env::var("VERIF_REPO").unwrap_or_else(|_| "/repo".to_string())
}

/// The address-block table, read by the harness from patterns.json (not via
/// the library).
fn load_blocks() -> Vec<Block> {
    let p = format!("{}/crates/rs1090/data/patterns.json", repo_root());
    let text = std::fs::read_to_string(&p).expect("patterns.json");
    let v: Value = serde_json::from_str(&text).expect("patterns.json parse");
    let mut out = Vec::new();
    for r in v["registers"].as_array().unwrap() {
        let (s, e) = match (r["start"].as_str(), r["end"].as_str()) {
            (Some(s), Some(e)) => (s, e),
            _ => continue,
        };
        let start = u32::from_str_radix(s.trim_start_matches("0x"), 16).unwrap();
        let end = u32::from_str_radix(e.trim_start_matches("0x"), 16).unwrap();
        let pattern_src = r["pattern"].as_str().map(|s| s.to_string());
        let pattern = pattern_src.as_ref().and_then(|p| Regex::new(p).ok());
        let cats = r["categories"]
            .as_array()
            .map(|a| a.iter().filter_map(|c| c["pattern"].as_str().and_then(|p| Regex::new(p).ok())).collect())
            .unwrap_or_default();
        out.push(Block { start, end, country: r["country"].as_str().unwrap_or("").to_string(), pattern, pattern_src, cats });
    }
    out
}

fn block_of(blocks: &[Block], a: u32) -> Option<&Block> {
    blocks.iter().find(|b| a >= b.start && a <= b.end)
}

fn check_addr(blocks: &[Block], a: u32, with_info: bool) -> (Option<String>, Option<(String, String)>) {
    set_case(14, a as u64, 0, 0);
    let reg = match guarded(|| tail(a)) {
        Err(p) => return (None, Some(("tail:panic".into(), format!("tail({a:#08x}) panicked: {p}")))),
        Ok(r) => r,
    };
    let reg = match reg {
        None => return (None, None),
        Some(r) => r,
    };
    if a > 0xff_ffff {
        return (Some(reg.clone()), Some(("tail:out-of-range-registered".into(), format!("tail({a:#x}) = {reg} for a value that is not a 24-bit address"))));
    }
    let b = match block_of(blocks, a) {
        None => return (Some(reg.clone()), Some(("tail:no-block".into(), format!("tail({a:06x}) = {reg} but no address block contains the address")))),
        Some(b) => b,
    };
    if let Some(p) = &b.pattern {
        let ok = p.is_match(&reg) || b.cats.iter().any(|c| c.is_match(&reg));
        if !ok {
            let pfx: String = reg.chars().take_while(|c| *c != '-').take(2).collect();
            return (
                Some(reg.clone()),
                Some((format!("tail:prefix:{}:{}", b.country.replace(' ', "_"), pfx), format!("tail({a:06x}) = {reg}: the block {:06x}-{:06x} belongs to {} whose prefix pattern is {}", b.start, b.end, b.country, b.pattern_src.as_deref().unwrap_or("?")))),
            );
        }
    }
    if with_info {
        let hex = format!("{a:06x}");
        match guarded(|| aircraft_information(&hex, None)) {
            Err(p) => return (Some(reg), Some(("info:panic".into(), format!("aircraft_information({hex}) panicked: {p}")))),
            Ok(Err(e)) => return (Some(reg), Some(("info:error".into(), format!("aircraft_information({hex}) failed: {e}")))),
            Ok(Ok(info)) => {
                if info.registration.as_deref() != Some(reg.as_str()) {
                    return (Some(reg.clone()), Some(("info:registration".into(), format!("aircraft_information({hex}).registration = {:?}, tail() = {reg}", info.registration))));
                }
                if info.country.is_none() {
                    return (Some(reg.clone()), Some(("info:no-country".into(), format!("aircraft_information({hex}) has registration {reg} but no country"))));
                }
            }
        }
    }
    (Some(reg), None)
}

pub fn run(ctx: &Ctx, rep: &Report) {
    let blocks = load_blocks();
    rep.set_rule("tail() called for every 24-bit address; registrations collected in a hash map (injectivity); the block table is read from patterns.json by the harness and the block's prefix pattern (or a category pattern) must match; aircraft_information must agree. non-trivial = addresses that receive a registration");
    // overlapping blocks are reported, not judged
    let mut overlaps = 0;
    for i in 0..blocks.len() {
        for j in (i + 1)..blocks.len() {
            if blocks[i].start <= blocks[j].end && blocks[j].start <= blocks[i].end {
                overlaps += 1;
            }
        }
    }
    rep.note("address_blocks", json!({"count": blocks.len(), "overlapping_pairs": overlaps, "without_pattern": blocks.iter().filter(|b| b.pattern.is_none()).count()}));
    let thorough = ctx.thorough();
    let regs: Mutex<HashMap<String, u32>> = Mutex::new(HashMap::new());
    let per_country: Mutex<std::collections::BTreeMap<String, u64>> = Mutex::new(Default::default());
    par_ranges(ctx.threads, 1 << 24, 1 << 14, |lo, hi| {
        let mut local: Vec<(String, u32)> = Vec::new();
        let mut bad = 0;
        for a in lo..hi {
            // aircraft_information compiles its category regexes on every call (~130 us):
            // thorough calls it for every registered address, quick for every 16th
            // address and at both ends of every run of registered addresses
            let with_info = thorough || a % 16 == 0 || guarded(|| tail(a as u32 + 1)).ok().flatten().is_none() || (a > 0 && guarded(|| tail(a as u32 - 1)).ok().flatten().is_none());
            let (reg, v) = check_addr(&blocks, a as u32, with_info);
            if let Some((c, w)) = v {
                rep.violation(&c, w, json!({"kind":"addr","addr":a}));
                bad += 1;
                if bad > 64 {
                    return;
                }
            }
            if let Some(r) = reg {
                local.push((r, a as u32));
            }
        }
        rep.eval(hi - lo);
        rep.nontriv(local.len() as u64);
        let mut pc = per_country.lock().unwrap();
        let mut m = regs.lock().unwrap();
        for (r, a) in local {
            let c = block_of(&blocks, a).map(|b| b.country.clone()).unwrap_or_else(|| "<none>".into());
            *pc.entry(c).or_insert(0) += 1;
            if let Some(prev) = m.insert(r.clone(), a) {
                let (x, y) = (prev.min(a), prev.max(a));
                rep.violation("tail:not-injective", format!("tail({x:06x}) = tail({y:06x}) = {r}"), json!({"kind":"pair","a":x,"b":y}));
            }
        }
    });
    let nreg = regs.lock().unwrap().len() as u64;
    rep.part("tail:all-2^24-addresses", 1 << 24, json!({"registered": nreg}));
    // second pass in descending order, each call preceded by a call on an unrelated address: the lookup must be a
    // function of its argument alone (no state carried between calls)
    {
        let by_addr: HashMap<u32, String> = regs.lock().unwrap().iter().map(|(r, a)| (*a, r.clone())).collect();
        let diff = std::sync::atomic::AtomicU64::new(0);
        par_ranges(ctx.threads, 1 << 24, 1 << 14, |lo, hi| {
            for a in (lo..hi).rev() {
                let a = a as u32;
                let _ = guarded(|| tail(a ^ 0x00a5_a5a5));
                let got = guarded(|| tail(a)).ok().flatten();
                if got.as_ref() != by_addr.get(&a) {
                    if diff.fetch_add(1, std::sync::atomic::Ordering::Relaxed) < 64 {
                        rep.violation("tail:order-dependent", format!("tail({a:06x}) = {:?} in ascending order and {:?} when called in descending order after an unrelated address", by_addr.get(&a), got), json!({"kind":"addr-after","addr":a,"after":a ^ 0x00a5_a5a5}));
                    }
                }
            }
            rep.eval(2 * (hi - lo));
        });
        rep.part("tail:second pass, descending, interleaved", 1 << 25, json!({"different": diff.load(std::sync::atomic::Ordering::Relaxed)}));
    }
    for (c, n) in per_country.lock().unwrap().iter() {
        rep.outcome(&format!("registered:{c}"), *n);
    }
    rep.outcome("unregistered", (1u64 << 24) - nreg);
    if ctx.thorough() {
        // totality (and nothing registered) on every non-address u32 value
        par_ranges(ctx.threads, (1u64 << 32) - (1 << 24), 1 << 20, |lo, hi| {
            for a in lo..hi {
                let a = (a + (1 << 24)) as u32;
                match guarded(|| tail(a)) {
                    Err(p) => rep.violation("tail:panic", format!("tail({a:#x}) panicked: {p}"), json!({"kind":"addr","addr":a})),
                    Ok(Some(r)) => rep.violation("tail:out-of-range-registered", format!("tail({a:#x}) = {r}"), json!({"kind":"addr","addr":a})),
                    Ok(None) => {}
                }
            }
            rep.eval(hi - lo);
        });
        rep.part("tail:all-other-u32-arguments", (1u64 << 32) - (1 << 24), json!({}));
    } else {
        // quick: 16-bit windows of the upper byte range + boundaries
        let mut n = 0u64;
        for hi_byte in 1..=255u32 {
            for low in [0u32, 1, 0xA00001, 0x840000, 0x380000, 0xffffff, 0x71ba00, 0x140000] {
                let a = (hi_byte << 24) | low;
                n += 1;
                match guarded(|| tail(a)) {
                    Err(p) => rep.violation("tail:panic", format!("tail({a:#x}) panicked: {p}"), json!({"kind":"addr","addr":a})),
                    Ok(Some(r)) => rep.violation("tail:out-of-range-registered", format!("tail({a:#x}) = {r}"), json!({"kind":"addr","addr":a})),
                    Ok(None) => {}
                }
            }
        }
        rep.eval(n);
        rep.part("tail:out-of-range-u32-sample-grid", n, json!({}));
    }
    let ev = rep.evaluations.load(std::sync::atomic::Ordering::Relaxed);
    rep.state(1 << 24);
    rep.trans(ev);
    for a in [0xa43e7fu32, 0x39b415, 0x869232, 0x71bd54, 0x140b3a] {
        rep.sample(json!({"kind":"addr","addr":format!("{a:06x}"),"registration":tail(a),"block_country":block_of(&blocks,a).map(|b| b.country.clone())}));
    }
    rep.set_bound(if ctx.thorough() { "complete: all 2^24 addresses (tail + aircraft_information for every registered one) and all other u32 arguments for totality" } else { "tail(), injectivity and block consistency complete over all 2^24 addresses; aircraft_information on every 16th address and at both ends of every registered run; out-of-range u32 arguments on a grid only" });
    rep.assume("the country NAME reported by aircraft_information is not compared with the block's, category entries may legitimately override it; blocks without a prefix pattern are counted, not judged");
}

pub fn replay(w: &Value, rep: &Report) {
    let blocks = load_blocks();
    match w["kind"].as_str() {
        Some("addr") => {
            let a = w["addr"].as_u64().unwrap() as u32;
            if let (_, Some((c, what))) = check_addr(&blocks, a, a <= 0xffffff) {
                rep.violation(&c, what, w.clone());
            }
        }
        Some("pair") => {
            let (a, b) = (w["a"].as_u64().unwrap() as u32, w["b"].as_u64().unwrap() as u32);
            let (ra, rb) = (guarded(|| tail(a)).ok().flatten(), guarded(|| tail(b)).ok().flatten());
            if ra.is_some() && ra == rb && a != b {
                rep.violation("tail:not-injective", format!("tail({a:06x}) = tail({b:06x}) = {}", ra.unwrap()), w.clone());
            }
        }
        Some("addr-after") => {
            let (a, b) = (w["addr"].as_u64().unwrap() as u32, w["after"].as_u64().unwrap() as u32);
            let g = a;
            let fresh = std::thread::spawn(move || guarded(|| tail(g)).ok().flatten()).join().unwrap_or(None);
            let _ = guarded(|| tail(b));
            let got = guarded(|| tail(a)).ok().flatten();
            if got != fresh {
                rep.violation("tail:order-dependent", format!("tail({a:06x}) = {fresh:?} on a fresh thread and {got:?} right after tail({b:06x})"), w.clone());
            }
        }
        _ => panic!("bad witness"),
    }
}

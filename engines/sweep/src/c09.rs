//! C09 — Beast framing: every stream over a 0x1A-placement alphabet x every
//! chunking with 0, 1, 2 (and 3 on a sub-alphabet) cuts, 1-byte dribble and
//! 1024-byte reads, through the real `beast::next_msg` fed from the in-memory
//! `DataSource::Chunks` hook.

use crate::common::*;
use futures::StreamExt;
use rs1090::source::beast::{next_msg, DataSource};
use serde_json::{json, Value};
use std::collections::VecDeque;
use std::sync::atomic::{AtomicU64, Ordering};

#[derive(Clone, Debug)]
pub struct Frame {
    /// un-escaped frame as it must be handed on: 1A, type, 6 ts, 1 signal, payload
    pub plain: Vec<u8>,
}

impl Frame {
    pub fn wire(&self) -> Vec<u8> {
        let mut w = vec![0x1a, self.plain[1]];
        for b in &self.plain[2..] {
            w.push(*b);
            if *b == 0x1a {
                w.push(0x1a);
            }
        }
        w
    }
}

pub fn body_len(ty: u8) -> usize {
    match ty {
        0x31 => 9,
        0x32 => 14,
        _ => 21,
    }
}

/// Frame of type `ty` whose body has 0x1A at `escapes` and filler elsewhere.
/// filler 0: distinct counters; 1: 0x33 (looks like a type byte); 2: 0x00
pub fn frame(ty: u8, escapes: &[usize], filler: u8, salt: u8) -> Frame {
    let n = body_len(ty);
    let mut plain = vec![0x1a, ty];
    for i in 0..n {
        let b = if escapes.contains(&i) {
            0x1a
        } else {
            match filler {
                0 => 0x40 + salt.wrapping_mul(32) + i as u8,
                1 => 0x33,
                _ => 0x00,
            }
        };
        plain.push(b);
    }
    Frame { plain }
}

fn placements(n: usize, max: usize) -> Vec<Vec<usize>> {
    let mut v = vec![vec![]];
    for a in 0..n {
        v.push(vec![a]);
    }
    if max >= 2 {
        for a in 0..n {
            for b in a + 1..n {
                v.push(vec![a, b]);
            }
        }
    }
    if max >= 3 {
        for a in 0..n {
            for b in a + 1..n {
                for c in b + 1..n {
                    v.push(vec![a, b, c]);
                }
            }
        }
    }
    v
}

pub fn f1_alphabet(max_esc: usize, thorough: bool) -> Vec<(String, Frame)> {
    let mut v = Vec::new();
    // (type '4' = receiver status records: part of the stream, skipped by the framer - skipping must be as careful about
    // escapes as handing on)
    for ty in [0x31u8, 0x32, 0x33, 0x34] {
        let n = body_len(ty);
        for p in placements(n, max_esc) {
            // (status records with two escapes also get the type-byte look-alike filler in the quick tier: what follows
            // an escape decides what a careless skip leaves behind)
            let fillers: &[u8] = if p.len() <= 1 || thorough { &[0, 1, 2] } else if ty == 0x34 { &[0, 1] } else { &[0] };
            for f in fillers {
                v.push((format!("type={} esc={:?} filler={}", ty as char, p, f), frame(ty, &p, *f, 0)));
            }
        }
        // runs of 4..6 consecutive 0x1A at the start, middle and end of the body
        for run in 4..=6usize {
            for start in [0, (n - run) / 2, n - run] {
                let p: Vec<usize> = (start..start + run).collect();
                v.push((format!("type={} run={}@{}", ty as char, run, start), frame(ty, &p, 0, 0)));
            }
        }
        // everything is 0x1A
        let all: Vec<usize> = (0..n).collect();
        v.push((format!("type={} all-1a", ty as char), frame(ty, &all, 0, 0)));
    }
    v
}

pub fn f2_alphabet() -> Vec<(String, Frame)> {
    let mut v = Vec::new();
    // a receiver status frame (type '4', same size as a long frame): part of the stream, never handed on
    v.push(("type=4 plain".to_string(), frame(0x34, &[], 0, 1)));
    v.push(("type=4 pair".to_string(), frame(0x34, &[10, 11], 1, 1)));
    for ty in [0x31u8, 0x32, 0x33] {
        let n = body_len(ty);
        v.push((format!("type={} plain", ty as char), frame(ty, &[], 0, 1)));
        v.push((format!("type={} first", ty as char), frame(ty, &[0], 0, 1)));
        v.push((format!("type={} last", ty as char), frame(ty, &[n - 1], 0, 1)));
        v.push((format!("type={} pair", ty as char), frame(ty, &[n / 2, n / 2 + 1], 1, 1)));
    }
    v
}

fn tail() -> Vec<Frame> {
    (0..3).map(|i| frame(0x33, &[], 0, 2 + i)).collect()
}

pub struct Stream {
    pub frames: Vec<Frame>,
    pub wire: Vec<u8>,
    pub starts: Vec<usize>,
}

pub fn stream(frames: Vec<Frame>) -> Stream {
    let mut wire = Vec::new();
    let mut starts = Vec::new();
    for f in &frames {
        starts.push(wire.len());
        wire.extend(f.wire());
    }
    Stream { frames, wire, starts }
}

/// Feed the chunks to the real framer and collect what it yields.
pub fn run_chunks(chunks: Vec<Vec<u8>>, limit: usize) -> Result<Vec<Vec<u8>>, String> {
    // the watchdog is told the stream with 0xff 0xff between the chunks (only read when the framer hangs)
    let mut desc: Vec<u8> = Vec::new();
    for (i, c) in chunks.iter().enumerate() {
        if i > 0 {
            desc.extend_from_slice(&[0xff, 0xff]);
        }
        desc.extend_from_slice(c);
    }
    guarded_watch(&desc, || {
        futures::executor::block_on(async {
            let q: VecDeque<Vec<u8>> = chunks.into();
            let s = next_msg(DataSource::Chunks(q)).await;
            futures::pin_mut!(s);
            let mut out = Vec::new();
            while let Some(m) = s.next().await {
                out.push(m);
                if out.len() > limit {
                    break;
                }
            }
            out
        })
    })
}

/// The same framer behind its real TCP arm: the wire bytes are written to a loopback connection in pieces of `piece`
/// bytes (with a pause of `pause_us` between them), `next_msg` reads from the connected socket until the peer closes.
/// How the kernel chunks the bytes is not controlled - the property says it must not matter.
pub fn run_tcp(wire: &[u8], piece: usize, pause_us: u64, limit: usize) -> Result<Vec<Vec<u8>>, String> {
    use tokio::io::AsyncWriteExt;
    let data = wire.to_vec();
    guarded(move || {
        let rt = tokio::runtime::Builder::new_current_thread().enable_all().build().expect("runtime");
        rt.block_on(async move {
            let listener = tokio::net::TcpListener::bind("127.0.0.1:0").await.expect("loopback listener");
            let addr = listener.local_addr().expect("local address");
            let writer = tokio::spawn(async move {
                let (mut sock, _) = listener.accept().await.expect("accept");
                let _ = sock.set_nodelay(true);
                for c in data.chunks(piece.max(1)) {
                    if sock.write_all(c).await.is_err() {
                        break;
                    }
                    if pause_us > 0 {
                        tokio::time::sleep(std::time::Duration::from_micros(pause_us)).await;
                    }
                }
                let _ = sock.shutdown().await;
            });
            let sock = tokio::net::TcpStream::connect(addr).await.expect("connect to loopback");
            let s = next_msg(DataSource::Tcp(sock)).await;
            futures::pin_mut!(s);
            let mut out = Vec::new();
            loop {
                match tokio::time::timeout(std::time::Duration::from_secs(20), s.next()).await {
                    Ok(Some(m)) => {
                        out.push(m);
                        if out.len() > limit {
                            break;
                        }
                    }
                    Ok(None) => break,
                    Err(_) => panic!("next_msg on a TCP socket yielded nothing for 20 s although the peer had closed"),
                }
            }
            let _ = writer.await;
            out
        })
    })
}

/// The UDP arm: every chunk is one datagram (<= 1024 bytes), so the chunking is exactly the given one. There is no end
/// of stream: reading stops when `expect` frames have arrived or nothing arrives for 300 ms.
pub fn run_udp(chunks: Vec<Vec<u8>>, expect: usize, limit: usize) -> Result<Vec<Vec<u8>>, String> {
    guarded(move || {
        let rt = tokio::runtime::Builder::new_current_thread().enable_all().build().expect("runtime");
        rt.block_on(async move {
            let rx = tokio::net::UdpSocket::bind("127.0.0.1:0").await.expect("loopback socket");
            let addr = rx.local_addr().expect("local address");
            let tx = tokio::net::UdpSocket::bind("127.0.0.1:0").await.expect("loopback socket");
            let writer = tokio::spawn(async move {
                for c in chunks {
                    let _ = tx.send_to(&c, addr).await;
                    tokio::task::yield_now().await;
                }
            });
            let s = next_msg(DataSource::Udp(rx)).await;
            futures::pin_mut!(s);
            let mut out = Vec::new();
            while out.len() < expect.max(1) {
                match tokio::time::timeout(std::time::Duration::from_millis(300), s.next()).await {
                    Ok(Some(m)) => {
                        out.push(m);
                        if out.len() > limit {
                            break;
                        }
                    }
                    _ => break,
                }
            }
            let _ = writer.await;
            out
        })
    })
}

fn split(wire: &[u8], cuts: &[usize]) -> Vec<Vec<u8>> {
    let mut v = Vec::new();
    let mut last = 0;
    for c in cuts {
        v.push(wire[last..*c].to_vec());
        last = *c;
    }
    v.push(wire[last..].to_vec());
    v
}

/// Judge one execution. `one_piece`: what the same stream yields when it is
/// delivered in a single read (None when this is that run).
fn judge(st: &Stream, got: &Result<Vec<Vec<u8>>, String>, one_piece: Option<&Vec<Vec<u8>>>) -> Option<(String, String)> {
    let got = match got {
        Err(p) => return Some((format!("panic:{}", panic_class(p)), format!("next_msg panicked: {p}"))),
        Ok(g) => g,
    };
    let total = st.wire.len();
    let handed: Vec<&Frame> = st.frames.iter().filter(|f| f.plain[1] != 0x34).collect();
    for (i, g) in got.iter().enumerate() {
        match handed.get(i) {
            None => return Some(("extra-frame".into(), format!("yielded {} frames, the stream has {} to hand on; extra: {}", got.len(), handed.len(), hexs(g)))),
            Some(f) if f.plain != *g => {
                let class = if g.len() != f.plain.len() {
                    "frame-wrong-length"
                } else if st.frames.iter().any(|x| x.plain == *g) {
                    "frame-skipped"
                } else {
                    "frame-modified"
                };
                return Some((class.into(), format!("frame {i}: expected {} got {}", hexs(&f.plain), hexs(g))));
            }
            _ => {}
        }
    }
    let must = st.starts.iter().zip(st.frames.iter()).filter(|(s, f)| **s + 23 < total && f.plain[1] != 0x34).count();
    if got.len() < must {
        return Some(("frame-lost".into(), format!("only {} frames handed on, {} of {} start before the last 23 bytes", got.len(), must, handed.len())));
    }
    if let Some(op) = one_piece {
        if op != got {
            return Some(("differs-from-one-piece".into(), format!("{} frames with this chunking, {} when the stream arrives in one piece", got.len(), op.len())));
        }
    }
    None
}

fn witness(st: &Stream, cuts: &[usize]) -> Value {
    json!({"frames": st.frames.iter().map(|f| hexs(&f.plain)).collect::<Vec<_>>(), "cuts": cuts})
}

/// Explore all chunkings of one stream up to `max_cuts` cuts among positions 1..=cut_hi.
/// near: if Some(set), double cuts are restricted to pairs whose both members are in the set.
fn explore_stream(st: &Stream, max_cuts: usize, cut_hi: usize, near: Option<&[bool]>, rep: &Report, cnt: &mut u64, inside: &mut u64) {
    let limit = st.frames.len() + 2;
    let one = run_chunks(vec![st.wire.clone()], limit);
    *cnt += 1;
    if let Some((c, w)) = judge(st, &one, None) {
        rep.violation(&c, w, witness(st, &[]));
    }
    let op = one.as_ref().ok();
    let frame_inside = |c: usize| !st.starts.contains(&c);
    let mut go = |cuts: &[usize]| {
        let r = run_chunks(split(&st.wire, cuts), limit);
        *cnt += 1;
        if cuts.iter().any(|c| frame_inside(*c)) {
            *inside += 1;
        }
        if let Some((c, w)) = judge(st, &r, op) {
            rep.violation(&c, w, witness(st, cuts));
        }
    };
    let hi = cut_hi.min(st.wire.len() - 1);
    for a in 1..=hi {
        go(&[a]);
    }
    if max_cuts >= 2 {
        for a in 1..=hi {
            for b in a + 1..=hi {
                if let Some(n) = near {
                    if !(n[a] && n[b]) {
                        continue;
                    }
                }
                go(&[a, b]);
            }
        }
    }
    if max_cuts >= 3 {
        for a in 1..=hi {
            for b in a + 1..=hi {
                for c in b + 1..=hi {
                    go(&[a, b, c]);
                }
            }
        }
    }
    // 1-byte dribble
    let all: Vec<usize> = (1..st.wire.len()).collect();
    go(&all);
    // an empty read (e.g. an empty datagram) at every single cut position: the same position twice
    for a in 1..=hi {
        go(&[a, a]);
    }
}

/// positions within +-4 bytes of an escape pair or a frame edge
fn near_set(st: &Stream) -> Vec<bool> {
    let n = st.wire.len();
    let mut v = vec![false; n + 1];
    let mut mark = |p: usize| {
        for q in p.saturating_sub(4)..=(p + 4).min(n) {
            v[q] = true;
        }
    };
    for s in &st.starts {
        mark(*s);
        mark(*s + 23);
        mark(*s + 24);
    }
    for i in 0..n.saturating_sub(1) {
        if st.wire[i] == 0x1a && st.wire[i + 1] == 0x1a {
            mark(i + 1);
        }
    }
    v
}

pub fn run(ctx: &Ctx, rep: &Report) {
    rep.set_rule("streams F1.F2.tail over a 0x1A-placement alphabet x all chunkings with a bounded number of cuts; non-trivial = executions in which at least one cut falls inside a frame");
    rep.assume("streams are well formed (the property's quantifier): every 0x1A after the type byte is doubled, reads of at most 1024 bytes; type-'4' status frames (23 bytes, as the framer sizes them) may occur and are never handed on");
    let thorough = ctx.thorough();
    let f1 = f1_alphabet(if thorough { 3 } else { 2 }, thorough);
    let f2 = f2_alphabet();
    let tl = tail();
    let total = AtomicU64::new(0);
    let inside = AtomicU64::new(0);
    let outcomes = std::sync::Mutex::new(std::collections::BTreeMap::<String, u64>::new());
    // (a) F1 x F2 streams
    let n = f1.len() * f2.len();
    par_ranges(ctx.threads, n as u64, 4, |lo, hi| {
        let mut cnt = 0u64;
        let mut ins = 0u64;
        for i in lo..hi {
            let (a, b) = (&f1[i as usize / f2.len()], &f2[i as usize % f2.len()]);
            let mut frames = vec![a.1.clone(), b.1.clone()];
            frames.extend(tl.iter().cloned());
            let st = stream(frames);
            let cut_hi = st.starts[2] + 24;
            let near = near_set(&st);
            let _ = &near;
            explore_stream(&st, 2, cut_hi, None, rep, &mut cnt, &mut ins);
        }
        total.fetch_add(cnt, Ordering::Relaxed);
        inside.fetch_add(ins, Ordering::Relaxed);
    });
    rep.part("F1 x F2, <= 2 cuts + dribble", total.load(Ordering::Relaxed), json!({"f1": f1.len(), "f2": f2.len(), "streams": n}));
    // (b) triple cuts on the F2 x F2 sub-alphabet
    let before = total.load(Ordering::Relaxed);
    let m = f2.len() * f2.len();
    par_ranges(ctx.threads, m as u64, 1, |lo, hi| {
        let mut cnt = 0u64;
        let mut ins = 0u64;
        for i in lo..hi {
            let (a, b) = (&f2[i as usize / f2.len()], &f2[i as usize % f2.len()]);
            let mut frames = vec![a.1.clone(), b.1.clone()];
            frames.extend(tl.iter().cloned());
            let st = stream(frames);
            let cut_hi = st.starts[2] + if thorough { 24 } else { 2 };
            explore_stream(&st, 3, cut_hi, None, rep, &mut cnt, &mut ins);
        }
        total.fetch_add(cnt, Ordering::Relaxed);
        inside.fetch_add(ins, Ordering::Relaxed);
    });
    rep.part("F2 x F2 sub-alphabet, <= 3 cuts", total.load(Ordering::Relaxed) - before, json!({"streams": m}));
    // (c) three-frame streams: F2 x F1(<=1 escape) x F2 with single cuts (non-initial parser states)
    let before = total.load(Ordering::Relaxed);
    let f1s: Vec<&(String, Frame)> = f1.iter().filter(|(n, _)| n.contains("esc=[]") || (n.contains("esc=[") && !n.contains(','))).collect();
    let k = f2.len() * f1s.len() * f2.len();
    par_ranges(ctx.threads, k as u64, 8, |lo, hi| {
        let mut cnt = 0u64;
        let mut ins = 0u64;
        for i in lo..hi {
            let i = i as usize;
            let a = &f2[i / (f1s.len() * f2.len())];
            let b = f1s[(i / f2.len()) % f1s.len()];
            let c = &f2[i % f2.len()];
            let mut frames = vec![a.1.clone(), b.1.clone(), c.1.clone()];
            frames.extend(tl.iter().cloned());
            let st = stream(frames);
            let cut_hi = st.starts[3] + 24;
            explore_stream(&st, 1, cut_hi, None, rep, &mut cnt, &mut ins);
        }
        total.fetch_add(cnt, Ordering::Relaxed);
        inside.fetch_add(ins, Ordering::Relaxed);
    });
    rep.part("three-frame streams, 1 cut", total.load(Ordering::Relaxed) - before, json!({"streams": k}));
    // (d) long concatenation read in 1024-byte pieces with every first-read length
    let before = total.load(Ordering::Relaxed);
    let mut frames: Vec<Frame> = Vec::new();
    for rnd in 0..3 {
        for (name, f) in &f1 {
            if name.contains("filler=0") && name.matches(',').count() <= (rnd % 2) {
                frames.push(f.clone());
            }
        }
    }
    frames.truncate(if thorough { 400 } else { 200 });
    frames.extend(tl.iter().cloned());
    let long = stream(frames);
    let limit = long.frames.len() + 2;
    let one = run_chunks(split(&long.wire, &(1..long.wire.len()).filter(|c| c % 1024 == 0).collect::<Vec<_>>()), limit);
    if let Some((c, w)) = judge(&long, &one, None) {
        rep.violation(&c, w, json!({"long_stream_frames": long.frames.len(), "first_read": 1024}));
    }
    par_ranges(ctx.threads, 1024, 16, |lo, hi| {
        let mut cnt = 0u64;
        for k in lo + 1..=hi {
            let mut cuts = Vec::new();
            let mut p = k as usize;
            while p < long.wire.len() {
                cuts.push(p);
                p += 1024;
            }
            let r = run_chunks(split(&long.wire, &cuts), limit);
            cnt += 1;
            if let Some((c, w)) = judge(&long, &r, one.as_ref().ok()) {
                rep.violation(&format!("long:{c}"), w, json!({"long_stream_frames": long.frames.len(), "first_read": k}));
            }
        }
        total.fetch_add(cnt, Ordering::Relaxed);
        inside.fetch_add(cnt, Ordering::Relaxed);
    });
    rep.part("long stream, 1024-byte reads", total.load(Ordering::Relaxed) - before, json!({"bytes": long.wire.len(), "frames": long.frames.len()}));
    // (e) a stream of several megabytes (buffers that are reclaimed, cursors that wrap, counters): every frame carries
    // its index in the timestamp field, so an old frame handed on again is recognised
    {
        let before = total.load(Ordering::Relaxed);
        let nframes = if thorough { 450_000 } else { 110_000 };
        let base: Vec<&Frame> = f1.iter().filter(|(n, _)| n.contains("filler=0")).map(|(_, f)| f).collect();
        let mut frames: Vec<Frame> = Vec::with_capacity(nframes);
        for i in 0..nframes {
            let mut f = base[i % base.len()].clone();
            let c = (i as u64 + 1).to_be_bytes();
            f.plain[2..8].copy_from_slice(&c[2..8]);
            frames.push(f);
        }
        frames.extend(tl.iter().cloned());
        let big = stream(frames);
        let limit = big.frames.len() + 2;
        // (a read returns at most 1024 bytes: that is the size of the framer's read buffer)
        let one = run_chunks(split(&big.wire, &(1..big.wire.len()).filter(|c| c % 1024 == 0).collect::<Vec<_>>()), limit);
        if let Some((c, w)) = judge(&big, &one, None) {
            rep.violation(&format!("big:{c}"), w, json!({"big_stream_frames": big.frames.len(), "read": 1024}));
        }
        let mut cnt = 1u64;
        for read in [997usize, 512, 100, 23] {
            let cuts: Vec<usize> = (1..big.wire.len()).filter(|c| c % read == 0).collect();
            let r = run_chunks(split(&big.wire, &cuts), limit);
            cnt += 1;
            if let Some((c, w)) = judge(&big, &r, one.as_ref().ok()) {
                rep.violation(&format!("big:{c}"), w, json!({"big_stream_frames": big.frames.len(), "read": read}));
            }
        }
        // the real TCP arm over loopback: the same big stream, and the 200-frame stream in small pieces
        for (st, piece, pause) in [(&big, 1 << 20, 0u64), (&big, 1500, 0), (&long, 700, 50), (&long, 64, 0), (&long, long.wire.len(), 0)] {
            let r = run_tcp(&st.wire, piece, pause, st.frames.len() + 2);
            cnt += 1;
            if let Some((c, w)) = judge(st, &r, None) {
                rep.violation(&format!("tcp:{c}"), format!("real TCP arm over loopback, written in pieces of {piece} bytes: {w}"), json!({"tcp_stream_frames": st.frames.len(), "piece": piece, "pause_us": pause}));
            }
        }
        // the real UDP arm: one datagram per chunk
        for read in [1024usize, 512, 37] {
            let cuts: Vec<usize> = (1..long.wire.len()).filter(|c| c % read == 0).collect();
            let expect = long.frames.iter().filter(|f| f.plain[1] != 0x34).count();
            let r = run_udp(split(&long.wire, &cuts), expect, long.frames.len() + 2);
            cnt += 1;
            if let Some((c, w)) = judge(&long, &r, None) {
                rep.violation(&format!("udp:{c}"), format!("real UDP arm over loopback, datagrams of {read} bytes: {w}"), json!({"udp_stream_frames": long.frames.len(), "datagram": read}));
            }
        }
        total.fetch_add(cnt, Ordering::Relaxed);
        inside.fetch_add(cnt, Ordering::Relaxed);
        rep.part("multi-megabyte stream (Chunks hook) and the real TCP / UDP arms over loopback", total.load(Ordering::Relaxed) - before, json!({"bytes": big.wire.len(), "frames": big.frames.len(), "note": "TCP chunking is decided by the kernel: any chunking must give the same frames"}));
    }
    // what the cuts hit (vacuity guard): classify every single cut of a fixed subset of streams
    {
        let mut o = outcomes.lock().unwrap();
        for (_, f) in f1.iter().step_by(f1.len() / 60 + 1) {
            let mut frames = vec![f.clone(), f2[3].1.clone()];
            frames.extend(tl.iter().cloned());
            let st = stream(frames);
            for c in 1..st.wire.len() {
                let r = run_chunks(split(&st.wire, &[c]), 8);
                let place = if st.starts.contains(&c) {
                    "cut at a frame boundary"
                } else if st.wire[c - 1] == 0x1a && st.wire[c] == 0x1a {
                    "cut between two 0x1A bytes"
                } else if c >= st.starts[2] {
                    "cut inside the tail"
                } else {
                    "cut inside a frame"
                };
                let key = match &r {
                    Ok(v) => format!("{place}: {} frames handed on", v.len()),
                    Err(_) => format!("{place}: panic"),
                };
                *o.entry(key).or_insert(0) += 1;
            }
        }
        rep.merge_outcomes(&o);
    }
    let ex = stream(vec![f1[5].1.clone(), f2[2].1.clone(), tl[0].clone(), tl[1].clone(), tl[2].clone()]);
    rep.sample(witness(&ex, &[23, 24]));
    rep.sample(json!({"wire": hexs(&ex.wire)}));
    let t = total.load(Ordering::Relaxed);
    rep.eval(t);
    rep.trans(t);
    rep.state((n + m + k + 1) as u64);
    rep.nontriv(inside.load(Ordering::Relaxed));
    rep.set_bound(&format!(
        "{} F1 patterns (<= {} isolated 0x1A, runs of 4-6, all-0x1A) x {} F2 patterns: every single cut, {} pair of cuts, dribble; 196 streams with every triple of cuts{}; {} three-frame streams with every single cut; 1024 alignments of 1024-byte reads",
        f1.len(),
        if thorough { 3 } else { 2 },
        f2.len(),
        "every",
        if thorough { "" } else { " in the first frame" },
        k
    ));
    if !thorough {
        rep.not_exhaustive("quick tier: at most 2 isolated 0x1A per frame (plus runs), triple cuts only up to the start of the tail");
    }
}

pub fn replay(w: &Value, rep: &Report) {
    let frames: Vec<Frame> = w["frames"].as_array().map(|a| a.iter().map(|x| Frame { plain: unhex(x.as_str().unwrap_or("")) }).collect()).unwrap_or_default();
    let cuts: Vec<usize> = w["cuts"].as_array().map(|a| a.iter().filter_map(|x| x.as_u64().map(|v| v as usize)).collect()).unwrap_or_default();
    if let (true, Some(h)) = (frames.is_empty(), w.get("frame").and_then(|x| x.as_str())) {
        // a witness of the hang watchdog: the chunks, separated by ff ff
        let bytes = unhex(h);
        let mut chunks: Vec<Vec<u8>> = vec![Vec::new()];
        let mut i = 0;
        while i < bytes.len() {
            if i + 1 < bytes.len() && bytes[i] == 0xff && bytes[i + 1] == 0xff {
                chunks.push(Vec::new());
                i += 2;
            } else {
                chunks.last_mut().unwrap().push(bytes[i]);
                i += 1;
            }
        }
        let _ = run_chunks(chunks, 64); // the watchdog reports it if it does not return
        rep.sample(w.clone());
        rep.outcome("replayed", 1);
        return;
    }
    if frames.is_empty() {
        eprintln!("replay of long-stream witnesses is done by the full check");
        return;
    }
    let st = stream(frames);
    let limit = st.frames.len() + 2;
    let one = run_chunks(vec![st.wire.clone()], limit);
    let r = run_chunks(split(&st.wire, &cuts), limit);
    if let Some((c, wh)) = judge(&st, &r, one.as_ref().ok()) {
        rep.violation(&c, wh, w.clone());
    }
    rep.trans(2);
    rep.state(1);
    rep.sample(w.clone());
    rep.outcome("replayed", 1);
}

#![allow(dead_code)]
//! E1 `sweep`: exhaustive bounded exploration of rs1090 (library) properties.
//! usage: sweep <ID> --tier quick|thorough --out <report.json> [--replay <witness.json>] [--seed N]

mod common;
mod c01;
mod c02;
mod fspace;
mod c06;
mod c07;
mod c08;
mod c09;
mod frames;
mod c03;
mod c04;
mod c05;
mod cpr_ref;
mod c13;
mod c14;
mod c15;
mod c18;
mod coldstart;
mod e2e;

use common::*;
use std::io::Write;

fn main() {
    let args: Vec<String> = std::env::args().collect();
    if args.len() < 2 {
        eprintln!("usage: sweep <ID> --tier quick|thorough --out FILE [--replay FILE] [--seed N]");
        std::process::exit(2);
    }
    let id = args[1].clone();
    if id == "E2E" {
        // catalogue of end-to-end scenarios for tools/e2e1090.py (no call into the subject)
        let thorough = args.iter().any(|a| a == "thorough");
        let text = serde_json::to_string(&e2e::catalogue(thorough)).unwrap();
        match args.iter().position(|a| a == "--out") {
            Some(i) => std::fs::write(&args[i + 1], text).expect("out file"),
            None => println!("{text}"),
        }
        return;
    }
    if args.iter().any(|a| a == "--coldstart") {
        std::process::exit(coldstart::run(&id, 16));
    }
    let mut tier = Tier::Quick;
    let mut out = None;
    let mut replay = None;
    let mut seed = 0u64;
    let mut threads = std::thread::available_parallelism().map(|n| n.get()).unwrap_or(4);
    let mut i = 2;
    while i < args.len() {
        match args[i].as_str() {
            "--tier" => {
                tier = if args[i + 1] == "thorough" { Tier::Thorough } else { Tier::Quick };
                i += 1;
            }
            "--out" => {
                out = Some(args[i + 1].clone());
                i += 1;
            }
            "--replay" => {
                replay = Some(args[i + 1].clone());
                i += 1;
            }
            "--seed" => {
                seed = args[i + 1].parse().unwrap_or(0);
                i += 1;
            }
            "--threads" => {
                threads = args[i + 1].parse().unwrap_or(threads);
                i += 1;
            }
            _ => {}
        }
        i += 1;
    }
    silence_panics();
    let dim = apply_dim();
    let ctx = Ctx { tier, seed, threads, dim };
    // leaked: the hang watchdog keeps a reference for the life of the process
    let rep: &'static Report = Box::leak(Box::new(Report::new(&id)));
    {
        // the watchdog's way out: write the report collected so far (a stuck worker cannot be joined)
        let out = out.clone();
        let _ = EMERGENCY_EXIT.set(Box::new(move || {
            let j = rep.to_json(tier, seed);
            let text = serde_json::to_string_pretty(&j).unwrap_or_default();
            match &out {
                Some(p) => {
                    let _ = std::fs::write(p, text);
                }
                None => println!("{text}"),
            }
            std::process::exit(0);
        }));
    }
    // every call into the subject is bracketed (common::guarded / guarded_watch): one that does not return within
    // 20 s is a violation with the case that was running, not a wall-cap machinery failure
    start_watchdog(rep, "hang", 20);
    if let Some(p) = replay {
        let text = std::fs::read_to_string(&p).expect("replay file");
        let v: serde_json::Value = serde_json::from_str(&text).expect("replay json");
        // a replay file is either a bare witness or {"witness":..}
        let w = v.get("witness").cloned().unwrap_or(v);
        // run the single case twice and demand identical observations
        let r1 = Report::new(&id);
        dispatch_replay(&id, &w, &r1);
        dispatch_replay(&id, &w, rep);
        let a = r1.to_json(tier, seed)["violations"].to_string();
        let b = rep.to_json(tier, seed)["violations"].to_string();
        if a != b {
            eprintln!("replay diverged between two runs:\n{a}\n{b}");
            std::process::exit(2);
        }
        rep.eval(1);
        rep.note("replay", serde_json::json!(p));
        let _ = &ctx;
    } else {
        dispatch(&id, &ctx, rep);
    }
    let j = rep.to_json(tier, seed);
    let text = serde_json::to_string_pretty(&j).unwrap();
    match out {
        Some(p) => {
            let mut f = std::fs::File::create(&p).expect("out file");
            f.write_all(text.as_bytes()).unwrap();
        }
        None => println!("{text}"),
    }
}

fn dispatch(id: &str, ctx: &Ctx, rep: &Report) {
    match id {
        "C01" => c01::run(ctx, rep),
        "C02" => c02::run(ctx, rep),
        "C03" => c03::run(ctx, rep),
        "C04" => c04::run(ctx, rep),
        "C05" => c05::run(ctx, rep),
        "C06" => c06::run(ctx, rep),
        "C07" => c07::run(ctx, rep),
        "C08" => c08::run(ctx, rep),
        "C09" => c09::run(ctx, rep),
        "C13" => c13::run(ctx, rep),
        "C14" => c14::run(ctx, rep),
        "C15" => c15::run(ctx, rep),
        "C18" => c18::run(ctx, rep),
        _ => {
            eprintln!("unknown property {id}");
            std::process::exit(2);
        }
    }
}

fn dispatch_replay(id: &str, w: &serde_json::Value, rep: &Report) {
    match id {
        "C01" => c01::replay(w, rep),
        "C02" => c02::replay(w, rep),
        "C03" => c03::replay(w, rep),
        "C04" => c04::replay(w, rep),
        "C05" => c05::replay(w, rep),
        "C06" => c06::replay(w, rep),
        "C07" => c07::replay(w, rep),
        "C08" => c08::replay(w, rep),
        "C09" => c09::replay(w, rep),
        "C13" => c13::replay(w, rep),
        "C14" => c14::replay(w, rep),
        "C15" => c15::replay(w, rep),
        "C18" => c18::replay(w, rep),
        _ => {
            eprintln!("unknown property {id}");
            std::process::exit(2);
        }
    }
}

// R-FRAME: bit-level Mode S frame builder written from Annex 10 vol. IV /
// Doc 9871 field tables (shared by both engines through include!).
// Bit offsets are 0-based from the first transmitted bit.

use super::common::{seal, set_bits};

/// Short surveillance reply (DF 0, 4, 5): 5 bits DF, 27 bits payload, AP.
pub fn short_ap(df: u8, payload27: u32, addr: u32) -> Vec<u8> {
    let mut f = vec![0u8; 7];
    set_bits(&mut f, 0, 5, df as u64);
    set_bits(&mut f, 5, 27, payload27 as u64);
    seal(&mut f, addr);
    f
}

/// DF4 / DF5: FS(3) DR(5) UM(6) AC|ID(13) AP(24)
pub fn df4_5(df: u8, fs: u8, dr: u8, um: u8, code13: u16, addr: u32) -> Vec<u8> {
    let p = ((fs as u32 & 7) << 24) | ((dr as u32 & 31) << 19) | ((um as u32 & 63) << 13) | (code13 as u32 & 0x1fff);
    short_ap(df, p, addr)
}

/// DF0: VS(1) CC(1) -(1) SL(3) -(2) RI(4) -(2) AC(13) AP(24)
pub fn df0(vs: u8, cc: u8, sl: u8, ri: u8, ac13: u16, addr: u32) -> Vec<u8> {
    let p = ((vs as u32 & 1) << 26) | ((cc as u32 & 1) << 25) | ((sl as u32 & 7) << 21) | ((ri as u32 & 15) << 15) | (ac13 as u32 & 0x1fff);
    short_ap(0, p, addr)
}

/// DF11: CA(3) AA(24) PI(24); `ii` is overlaid on the parity (0 for squitters)
pub fn df11(ca: u8, aa: u32, ii: u32) -> Vec<u8> {
    let mut f = vec![0u8; 7];
    set_bits(&mut f, 0, 5, 11);
    set_bits(&mut f, 5, 3, ca as u64);
    set_bits(&mut f, 8, 24, aa as u64);
    seal(&mut f, ii);
    f
}

/// DF16: VS(1) -(2) SL(3) -(2) RI(4) -(2) AC(13) MV(56) AP(24)
pub fn df16(vs: u8, sl: u8, ri: u8, ac13: u16, mv: &[u8; 7], addr: u32) -> Vec<u8> {
    let mut f = vec![0u8; 14];
    set_bits(&mut f, 0, 5, 16);
    set_bits(&mut f, 5, 1, vs as u64);
    set_bits(&mut f, 8, 3, sl as u64);
    set_bits(&mut f, 13, 4, ri as u64);
    set_bits(&mut f, 19, 13, ac13 as u64);
    f[4..11].copy_from_slice(mv);
    seal(&mut f, addr);
    f
}

/// DF17: CA(3) AA(24) ME(56) PI(24); `syndrome` is XORed on the parity (0 = valid)
pub fn df17(ca: u8, aa: u32, me: &[u8; 7], syndrome: u32) -> Vec<u8> {
    es(17, ca, aa, me, syndrome)
}

/// DF18: CF(3) AA(24) ME(56) PI(24)
pub fn df18(cf: u8, aa: u32, me: &[u8; 7], syndrome: u32) -> Vec<u8> {
    es(18, cf, aa, me, syndrome)
}

pub fn es(df: u8, c3: u8, aa: u32, me: &[u8; 7], syndrome: u32) -> Vec<u8> {
    let mut f = vec![0u8; 14];
    set_bits(&mut f, 0, 5, df as u64);
    set_bits(&mut f, 5, 3, c3 as u64);
    set_bits(&mut f, 8, 24, aa as u64);
    f[4..11].copy_from_slice(me);
    seal(&mut f, syndrome);
    f
}

/// DF20 / DF21: FS(3) DR(5) UM(6) AC|ID(13) MB(56) AP(24)
pub fn df20_21(df: u8, fs: u8, dr: u8, um: u8, code13: u16, mb: &[u8; 7], addr: u32) -> Vec<u8> {
    let mut f = vec![0u8; 14];
    set_bits(&mut f, 0, 5, df as u64);
    set_bits(&mut f, 5, 3, fs as u64);
    set_bits(&mut f, 8, 5, dr as u64);
    set_bits(&mut f, 13, 6, um as u64);
    set_bits(&mut f, 19, 13, code13 as u64);
    f[4..11].copy_from_slice(mb);
    seal(&mut f, addr);
    f
}

/// DF24..31: two leading bits 11, then -(1) KE(1) ND(4) MD(80) AP(24)
pub fn df24(ke: u8, nd: u8, md: &[u8; 10], addr: u32) -> Vec<u8> {
    let mut f = vec![0u8; 14];
    set_bits(&mut f, 0, 2, 3);
    set_bits(&mut f, 3, 1, ke as u64);
    set_bits(&mut f, 4, 4, nd as u64);
    f[1..11].copy_from_slice(md);
    seal(&mut f, addr);
    f
}

/// DF19: AF(3) then 104 application bits (no parity defined for AF != 0)
pub fn df19(af: u8, fill: u8) -> Vec<u8> {
    let mut f = vec![fill; 14];
    f[0] = (19 << 3) | (af & 7);
    f
}

// ---------------------------------------------------------------------------
// Altitude / identity encoders (Annex 10 vol IV 3.1.2.6.5.4, 3.1.2.6.7.1)

/// 13-bit AC code with Q=1 for an altitude that is a multiple of 25 ft in
/// [-1000, 50175]
pub fn ac13_q(alt_ft: i32) -> u16 {
    let n = ((alt_ft + 1000) / 25) as u16; // 11 bits
    ((n & 0x7e0) << 2) | ((n & 0x10) << 1) | 0x10 | (n & 0xf)
}

/// 12-bit ME altitude code (the 13-bit code with the M bit removed), Q=1
pub fn ac12_q(alt_ft: i32) -> u16 {
    let n = ((alt_ft + 1000) / 25) as u16;
    ((n & 0x7f0) << 1) | 0x10 | (n & 0xf)
}

/// 13-bit identity code of a squawk given as four octal digits ABCD
/// (field order C1 A1 C2 A2 C4 A4 X B1 D1 B2 D2 B4 D4)
pub fn id13(a: u8, b: u8, c: u8, d: u8) -> u16 {
    let bit = |v: u8, w: u8| -> u16 { ((v & w) != 0) as u16 };
    (bit(c, 1) << 12)
        | (bit(a, 1) << 11)
        | (bit(c, 2) << 10)
        | (bit(a, 2) << 9)
        | (bit(c, 4) << 8)
        | (bit(a, 4) << 7)
        | (bit(b, 1) << 5)
        | (bit(d, 1) << 4)
        | (bit(b, 2) << 3)
        | (bit(d, 2) << 2)
        | (bit(b, 4) << 1)
        | bit(d, 4)
}

// ---------------------------------------------------------------------------
// Call signs (Annex 10 vol IV table 3-9: 6-bit subset of IA-5)

/// 6-bit code of a call-sign character (A-Z, 0-9, space)
pub fn cs_code(c: char) -> u8 {
    match c {
        'A'..='Z' => c as u8 - b'A' + 1,
        '0'..='9' => c as u8 - b'0' + 48,
        _ => 32,
    }
}

/// The character a 6-bit code stands for, None for unassigned codes
pub fn cs_char(code: u8) -> Option<char> {
    match code {
        1..=26 => Some((b'A' + code - 1) as char),
        32 => Some(' '),
        48..=57 => Some((b'0' + code - 48) as char),
        _ => None,
    }
}

/// ME of an identification message (BDS 0,8): TC(5) CA(3) 8 x 6-bit characters
pub fn me_bds08(tc: u8, ca: u8, codes: &[u8; 8]) -> [u8; 7] {
    let mut me = [0u8; 7];
    set_bits(&mut me, 0, 5, tc as u64);
    set_bits(&mut me, 5, 3, ca as u64);
    for (i, c) in codes.iter().enumerate() {
        set_bits(&mut me, 8 + 6 * i, 6, *c as u64);
    }
    me
}

/// MB of BDS 2,0: 0x20 then 8 x 6-bit characters
pub fn mb_bds20(codes: &[u8; 8]) -> [u8; 7] {
    let mut mb = [0u8; 7];
    mb[0] = 0x20;
    for (i, c) in codes.iter().enumerate() {
        set_bits(&mut mb, 8 + 6 * i, 6, *c as u64);
    }
    mb
}

pub fn cs_codes(s: &str) -> [u8; 8] {
    let mut out = [32u8; 8];
    for (i, c) in s.chars().take(8).enumerate() {
        out[i] = cs_code(c);
    }
    out
}

// ---------------------------------------------------------------------------
// Extended squitter ME fields (Doc 9871 tables A-2-5 .. A-2-9)

/// Airborne position (BDS 0,5): TC(5) SS(2) SAF(1) AC(12) T(1) F(1) LAT(17) LON(17)
pub fn me_bds05(tc: u8, ss: u8, saf: u8, ac12: u16, t: u8, f: u8, lat: u32, lon: u32) -> [u8; 7] {
    let mut me = [0u8; 7];
    set_bits(&mut me, 0, 5, tc as u64);
    set_bits(&mut me, 5, 2, ss as u64);
    set_bits(&mut me, 7, 1, saf as u64);
    set_bits(&mut me, 8, 12, ac12 as u64);
    set_bits(&mut me, 20, 1, t as u64);
    set_bits(&mut me, 21, 1, f as u64);
    set_bits(&mut me, 22, 17, lat as u64);
    set_bits(&mut me, 39, 17, lon as u64);
    me
}

/// Surface position (BDS 0,6): TC(5) MOV(7) S(1) TRK(7) T(1) F(1) LAT(17) LON(17)
pub fn me_bds06(tc: u8, mov: u8, s: u8, trk: u8, t: u8, f: u8, lat: u32, lon: u32) -> [u8; 7] {
    let mut me = [0u8; 7];
    set_bits(&mut me, 0, 5, tc as u64);
    set_bits(&mut me, 5, 7, mov as u64);
    set_bits(&mut me, 12, 1, s as u64);
    set_bits(&mut me, 13, 7, trk as u64);
    set_bits(&mut me, 20, 1, t as u64);
    set_bits(&mut me, 21, 1, f as u64);
    set_bits(&mut me, 22, 17, lat as u64);
    set_bits(&mut me, 39, 17, lon as u64);
    me
}

/// Airborne velocity (BDS 0,9) subtypes 1/2:
/// TC=19(5) ST(3) IC(1) IFR(1) NUC(3) Dew(1) Vew(10) Dns(1) Vns(10) VrSrc(1) Svr(1) Vr(9) -(2) Sdif(1) dAlt(7)
#[allow(clippy::too_many_arguments)]
pub fn me_bds09_gs(st: u8, ic: u8, ifr: u8, nuc: u8, dew: u8, vew: u16, dns: u8, vns: u16, vrsrc: u8, svr: u8, vr: u16, sdif: u8, dalt: u8) -> [u8; 7] {
    let mut me = [0u8; 7];
    set_bits(&mut me, 0, 5, 19);
    set_bits(&mut me, 5, 3, st as u64);
    set_bits(&mut me, 8, 1, ic as u64);
    set_bits(&mut me, 9, 1, ifr as u64);
    set_bits(&mut me, 10, 3, nuc as u64);
    set_bits(&mut me, 13, 1, dew as u64);
    set_bits(&mut me, 14, 10, vew as u64);
    set_bits(&mut me, 24, 1, dns as u64);
    set_bits(&mut me, 25, 10, vns as u64);
    set_bits(&mut me, 35, 1, vrsrc as u64);
    set_bits(&mut me, 36, 1, svr as u64);
    set_bits(&mut me, 37, 9, vr as u64);
    set_bits(&mut me, 48, 1, sdif as u64);
    set_bits(&mut me, 49, 7, dalt as u64);
    me
}

/// Airborne velocity subtypes 3/4:
/// TC=19 ST(3) IC IFR NUC(3) HdgStatus(1) Hdg(10) AsType(1) As(10) VrSrc Svr Vr(9) -(2) Sdif dAlt(7)
#[allow(clippy::too_many_arguments)]
pub fn me_bds09_as(st: u8, ic: u8, ifr: u8, nuc: u8, hs: u8, hdg: u16, ast: u8, aspd: u16, vrsrc: u8, svr: u8, vr: u16, sdif: u8, dalt: u8) -> [u8; 7] {
    me_bds09_gs(st, ic, ifr, nuc, hs, hdg, ast, aspd, vrsrc, svr, vr, sdif, dalt)
}

/// Aircraft status (BDS 6,1) subtype 1: TC=28 ST(3) EMG(3) ID(13) reserved
pub fn me_bds61(st: u8, emg: u8, id13: u16) -> [u8; 7] {
    let mut me = [0u8; 7];
    set_bits(&mut me, 0, 5, 28);
    set_bits(&mut me, 5, 3, st as u64);
    set_bits(&mut me, 8, 3, emg as u64);
    set_bits(&mut me, 11, 13, id13 as u64);
    me
}

/// Target state and status (BDS 6,2) subtype 1:
/// TC=29(5) ST(2) SILs(1) SRC(1) ALT(11) QNH(9) HS(1) HDG(9) NACp(4) NICb(1) SIL(2)
/// MS(1) AP(1) VNAV(1) ALTH(1) IMF(1) APP(1) TCAS(1) LNAV(1) -(2)
#[allow(clippy::too_many_arguments)]
pub fn me_bds62(st: u8, src: u8, alt: u16, qnh: u16, hs: u8, hdg: u16, nacp: u8, nicb: u8, sil: u8, modes: u8) -> [u8; 7] {
    let mut me = [0u8; 7];
    set_bits(&mut me, 0, 5, 29);
    set_bits(&mut me, 5, 2, st as u64);
    set_bits(&mut me, 8, 1, src as u64);
    set_bits(&mut me, 9, 11, alt as u64);
    set_bits(&mut me, 20, 9, qnh as u64);
    set_bits(&mut me, 29, 1, hs as u64);
    set_bits(&mut me, 30, 9, hdg as u64);
    set_bits(&mut me, 39, 4, nacp as u64);
    set_bits(&mut me, 43, 1, nicb as u64);
    set_bits(&mut me, 44, 2, sil as u64);
    // MS AP VNAV ALTH IMF APP TCAS LNAV
    set_bits(&mut me, 46, 8, modes as u64);
    me
}

/// Operational status (BDS 6,5): TC=31(5) ST(3) CC(16 | 12+4) OM(16) VER(3) NICs(1) NACp(4) GVA/BAQ(2) SIL(2) NICbaro/TRK(1) HRD(1) SILs(1) -(1)
pub fn me_bds65(st: u8, cc: u16, om: u16, ver: u8, nic_s: u8, nacp: u8, tail: u8) -> [u8; 7] {
    let mut me = [0u8; 7];
    set_bits(&mut me, 0, 5, 31);
    set_bits(&mut me, 5, 3, st as u64);
    set_bits(&mut me, 8, 16, cc as u64);
    set_bits(&mut me, 24, 16, om as u64);
    set_bits(&mut me, 40, 3, ver as u64);
    set_bits(&mut me, 43, 1, nic_s as u64);
    set_bits(&mut me, 44, 4, nacp as u64);
    set_bits(&mut me, 48, 8, tail as u64);
    me
}

// ---------------------------------------------------------------------------
// Comm-B registers (Doc 9871 tables A-2-64, A-2-80, A-2-96)

/// One "status + value" field: `status` bit followed by `width` bits
fn put_sv(mb: &mut [u8; 7], off: usize, width: usize, f: Option<u32>) {
    if let Some(v) = f {
        set_bits(mb, off, 1, 1);
        set_bits(mb, off + 1, width, v as u64);
    }
}

/// BDS 4,0: MCP alt (st+12, 16 ft), FMS alt (st+12), QNH (st+12, 0.1 mb over 800),
/// 8 reserved, mode status+3 bits, 2 reserved, source status + 2 bits
pub fn mb_bds40(mcp: Option<u32>, fms: Option<u32>, qnh: Option<u32>, modes: Option<u32>, source: Option<u32>) -> [u8; 7] {
    let mut mb = [0u8; 7];
    put_sv(&mut mb, 0, 12, mcp);
    put_sv(&mut mb, 13, 12, fms);
    put_sv(&mut mb, 26, 12, qnh);
    put_sv(&mut mb, 47, 3, modes);
    put_sv(&mut mb, 53, 2, source);
    mb
}

/// BDS 5,0: roll (st, sign+9: 45/256 deg), true track (st, sign+10: 90/512 deg),
/// ground speed (st, 10: 2 kt), track rate (st, sign+9: 8/256 deg/s), TAS (st, 10: 2 kt).
/// Signed fields are given as two's complement codes of width 10 / 11 / 10.
pub fn mb_bds50(roll: Option<u32>, track: Option<u32>, gs: Option<u32>, rate: Option<u32>, tas: Option<u32>) -> [u8; 7] {
    let mut mb = [0u8; 7];
    put_sv(&mut mb, 0, 10, roll);
    put_sv(&mut mb, 11, 11, track);
    put_sv(&mut mb, 23, 10, gs);
    put_sv(&mut mb, 34, 10, rate);
    put_sv(&mut mb, 45, 10, tas);
    mb
}

/// BDS 6,0: magnetic heading (st, sign+10: 90/512 deg), IAS (st, 10: 1 kt),
/// Mach (st, 10: 2.048/512), baro rate (st, sign+9: 32 ft/min), inertial rate (st, sign+9)
pub fn mb_bds60(hdg: Option<u32>, ias: Option<u32>, mach: Option<u32>, baro: Option<u32>, inertial: Option<u32>) -> [u8; 7] {
    let mut mb = [0u8; 7];
    put_sv(&mut mb, 0, 11, hdg);
    put_sv(&mut mb, 12, 10, ias);
    put_sv(&mut mb, 23, 10, mach);
    put_sv(&mut mb, 34, 10, baro);
    put_sv(&mut mb, 45, 10, inertial);
    mb
}

/// Two's complement code of `v` on `width` bits
pub fn twos(v: i32, width: u32) -> u32 {
    (v as u32) & ((1u32 << width) - 1)
}

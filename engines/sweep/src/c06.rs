//! C06 — trajectory decoding: all report histories up to a depth over a
//! (gap, parity) alphabet that straddles every window constant of the decoder,
//! for a catalogue of trajectories, through the real `cpr::decode_positions`;
//! plus all merge orders of two aircraft (solo vs interleaved equality).

use crate::common::*;
use crate::cpr_ref::ref_nl_f64;
use crate::frames::*;
use rs1090::decode::adsb::ME;
use rs1090::decode::cpr::{decode_positions, CPRFormat, Position};
use rs1090::decode::{Message, TimedMessage, DF};
use serde_json::{json, Value};
use std::sync::atomic::{AtomicU64, Ordering};

const NM_PER_DEG: f64 = 60.0;

#[derive(Clone, Copy, Debug, PartialEq)]
pub enum Phase {
    Air,
    Surface,
    /// airborne for the first k reports, on the surface afterwards
    Landing(usize),
}

#[derive(Clone, Debug)]
pub struct Traj {
    pub name: String,
    pub lat0: f64,
    pub lon0: f64,
    pub heading: f64,
    pub kt: f64,
    pub phase: Phase,
    /// receiver reference: None, or a point at this many NM north-east of the start
    pub reference_nm: Option<f64>,
}

impl Traj {
    /// rhumb line at constant speed; stops when it would pass 89.5 degrees
    pub fn at(&self, t: f64) -> (f64, f64) {
        let h = self.heading.to_radians();
        let dlat_per_s = self.kt * h.cos() / 3600.0 / NM_PER_DEG;
        let mut tt = t;
        if dlat_per_s.abs() > 0.0 {
            let lim = if dlat_per_s > 0.0 { 89.5 } else { -89.5 };
            let t_lim = (lim - self.lat0) / dlat_per_s;
            if t_lim >= 0.0 && tt > t_lim {
                tt = t_lim;
            }
            if t_lim <= 0.0 && tt < t_lim {
                tt = t_lim;
            }
        }
        let lat = self.lat0 + dlat_per_s * tt;
        let merc = |p: f64| (std::f64::consts::FRAC_PI_4 + p.to_radians() / 2.0).tan().ln();
        let lon = if h.cos().abs() < 1e-9 {
            self.lon0 + self.kt * h.sin() * tt / 3600.0 / NM_PER_DEG / self.lat0.to_radians().cos()
        } else {
            self.lon0 + (h.tan() * (merc(lat) - merc(self.lat0))).to_degrees()
        };
        (lat, (lon + 180.0).rem_euclid(360.0) - 180.0)
    }
    pub fn reference(&self) -> Option<Position> {
        self.reference_nm.map(|d| {
            let dd = d / NM_PER_DEG / std::f64::consts::SQRT_2;
            Position { latitude: (self.lat0 + dd).clamp(-89.9, 89.9), longitude: self.lon0 + dd / self.lat0.to_radians().cos().max(0.01) }
        })
    }
    pub fn surface_at(&self, k: usize) -> bool {
        match self.phase {
            Phase::Air => false,
            Phase::Surface => true,
            Phase::Landing(n) => k >= n,
        }
    }
}

fn modf(a: f64, b: f64) -> f64 {
    a - b * (a / b).floor()
}

/// DO-260B A.1.7.3 encoder (float form). Returns (yz, xz, near_transition)
pub fn encode(lat: f64, lon: f64, odd: bool, surface: bool) -> (u32, u32, bool) {
    let nb = if surface { 19 } else { 17 };
    let scale = (1u64 << nb) as f64;
    let i = odd as u32 as f64;
    let dlat = 360.0 / (60.0 - i);
    let yz = (scale * modf(lat, dlat) / dlat + 0.5).floor();
    let rlat = dlat * (yz / scale + (lat / dlat).floor());
    let (nl, near) = ref_nl_f64(rlat);
    let n = (nl as f64 - i).max(1.0);
    let dlon = 360.0 / n;
    let xz = (scale * modf(lon, dlon) / dlon + 0.5).floor();
    ((yz as u64 & 0x1ffff) as u32, (xz as u64 & 0x1ffff) as u32, near)
}

#[derive(Clone, Copy, Debug, PartialEq)]
pub struct Step {
    pub dt: f64,
    pub odd: bool,
    /// the previous report delivered once more, `dt` later (another receiver, a relay): same frame, later stamp
    pub dup: bool,
}

pub struct Templates {
    air: Message,
    sfc: Message,
}

pub fn templates(addr: u32) -> Templates {
    templates_on(addr, 17)
}

/// df = 17: ADS-B; df = 18: TIS-B / ADS-R carrier (control field 2) of the same position messages
pub fn templates_on(addr: u32, df: u8) -> Templates {
    templates_alt(addr, df, 10000)
}

/// `alt_ft`: barometric altitude carried by the airborne reports (decoders treat low aircraft differently: they are
/// near an airport)
pub fn templates_alt(addr: u32, df: u8, alt_ft: i32) -> Templates {
    let (a, s) = (me_bds05(11, 0, 0, ac12_q(alt_ft), 0, 0, 0, 0), me_bds06(7, 20, 1, 10, 0, 0, 0, 0));
    let air = Message::try_from(if df == 17 { df17(5, addr, &a, 0) } else { df18(2, addr, &a, 0) }.as_slice()).expect("airborne template");
    let sfc = Message::try_from(if df == 17 { df17(5, addr, &s, 0) } else { df18(2, addr, &s, 0) }.as_slice()).expect("surface template");
    Templates { air, sfc }
}

fn me_mut(m: &mut Message) -> Option<&mut ME> {
    match &mut m.df {
        DF::ExtendedSquitterADSB(a) => Some(&mut a.message),
        DF::ExtendedSquitterTisB { cf, .. } => Some(&mut cf.me),
        _ => None,
    }
}

fn me_ref(m: &Message) -> Option<&ME> {
    match &m.df {
        DF::ExtendedSquitterADSB(a) => Some(&a.message),
        DF::ExtendedSquitterTisB { cf, .. } => Some(&cf.me),
        _ => None,
    }
}

pub fn make_msg(tp: &Templates, surface: bool, odd: bool, yz: u32, xz: u32) -> Message {
    let mut m = if surface { tp.sfc.clone() } else { tp.air.clone() };
    let par = if odd { CPRFormat::Odd } else { CPRFormat::Even };
    match me_mut(&mut m) {
        Some(ME::BDS05(p)) => {
            p.lat_cpr = yz;
            p.lon_cpr = xz;
            p.parity = par;
        }
        Some(ME::BDS06(p)) => {
            p.lat_cpr = yz;
            p.lon_cpr = xz;
            p.parity = par;
        }
        _ => {}
    }
    m
}

pub fn position_of(m: &Message) -> Option<(f64, f64)> {
    match me_ref(m) {
        Some(ME::BDS05(p)) => p.latitude.zip(p.longitude),
        Some(ME::BDS06(p)) => p.latitude.zip(p.longitude),
        _ => None,
    }
}

pub struct Report1 {
    pub t: f64,
    pub truth: (f64, f64),
    pub judge: bool,
    pub surface: bool,
    pub msg: Message,
}

/// Build the reports of one history. None when a surface report would be sent
/// out of the receiver's unambiguous range (such a history is not in the
/// property's quantifier: the reference must be within 45 NM).
thread_local! {
    /// the time of the first report of a history: 1000 s (small numbers), or a Unix time (1.7e9: what receivers deliver;
    /// a decoder that keeps times in single precision, or in milliseconds in 32 bits, only shows there)
    pub static TIME_BASE: std::cell::Cell<f64> = const { std::cell::Cell::new(1000.0) };
}

pub fn build(tr: &Traj, tp: &Templates, steps: &[Step]) -> Option<Vec<Report1>> {
    let base = TIME_BASE.with(|b| b.get());
    let mut t = base;
    let refp = tr.reference();
    let mut v = Vec::with_capacity(steps.len());
    for (k, s) in steps.iter().enumerate() {
        t += s.dt;
        if s.dup && k > 0 {
            let prev: &Report1 = &v[k - 1];
            let again = Report1 { t, truth: prev.truth, judge: prev.judge, surface: prev.surface, msg: prev.msg.clone() };
            v.push(again);
            continue;
        }
        let (lat, lon) = tr.at(t - base);
        let surface = tr.surface_at(k);
        if surface {
            // poleward of 88.5 degrees a 45-NM disc spans more than half a surface longitude zone:
            // the surface format itself is ambiguous there (no claim, as in C05)
            if lat.abs() > 88.5 {
                return None;
            }
            if let Some(r) = refp {
                if haversine_m(lat, lon, r.latitude, r.longitude) > 40.0 * 1852.0 {
                    return None;
                }
            }
        }
        let (yz, xz, near) = encode(lat, lon, s.odd, surface);
        v.push(Report1 { t, truth: (lat, lon), judge: !near, surface, msg: make_msg(tp, surface, s.odd, yz, xz) });
    }
    Some(v)
}

pub fn run_decoder(reports: &[&Report1], reference: Option<Position>) -> Result<Vec<Option<(f64, f64)>>, String> {
    let mut msgs: Vec<TimedMessage> = reports.iter().map(|r| TimedMessage { timestamp: r.t, frame: vec![], message: Some(r.msg.clone()), metadata: vec![], decode_time: None, ..Default::default() }).collect();
    guarded(move || {
        decode_positions(&mut msgs, reference, &None);
        msgs.iter().map(|m| m.message.as_ref().and_then(position_of)).collect()
    })
}

fn steps_json(steps: &[Step]) -> Value {
    json!(steps.iter().map(|s| json!([s.dt, if s.dup { "again" } else if s.odd { "odd" } else { "even" }])).collect::<Vec<_>>())
}

fn traj_json(tr: &Traj) -> Value {
    json!({"name": tr.name, "lat0": tr.lat0, "lon0": tr.lon0, "heading": tr.heading, "kt": tr.kt,
        "phase": match tr.phase { Phase::Air => json!("air"), Phase::Surface => json!("surface"), Phase::Landing(k) => json!({"landing_after": k}) },
        "reference_nm": tr.reference_nm})
}

pub fn traj_from_json(v: &Value) -> Traj {
    Traj {
        name: v["name"].as_str().unwrap_or("replay").to_string(),
        lat0: v["lat0"].as_f64().unwrap_or(0.0),
        lon0: v["lon0"].as_f64().unwrap_or(0.0),
        heading: v["heading"].as_f64().unwrap_or(0.0),
        kt: v["kt"].as_f64().unwrap_or(0.0),
        phase: match &v["phase"] {
            Value::String(s) if s == "surface" => Phase::Surface,
            Value::Object(o) => Phase::Landing(o.get("landing_after").and_then(|x| x.as_u64()).unwrap_or(0) as usize),
            _ => Phase::Air,
        },
        reference_nm: v["reference_nm"].as_f64(),
    }
}

/// Judge one single-aircraft history; returns the number of reports that got a position
pub fn check(tr: &Traj, tp: &Templates, steps: &[Step], rep: &Report) -> Option<usize> {
    check_mixed(tr, tp, None, steps, rep)
}

/// `alt`: templates of a second carrier used for every other report (same address: the same aircraft)
pub fn check_mixed(tr: &Traj, tp: &Templates, alt: Option<&Templates>, steps: &[Step], rep: &Report) -> Option<usize> {
    let mut reports = build(tr, tp, steps)?;
    if let Some(alt) = alt {
        let other = build(tr, alt, steps)?;
        for (k, o) in other.into_iter().enumerate() {
            if k % 2 == 1 {
                reports[k] = o;
            }
        }
    }
    let refs: Vec<&Report1> = reports.iter().collect();
    let got = match run_decoder(&refs, tr.reference()) {
        Ok(g) => g,
        Err(p) => {
            rep.violation(&format!("panic:{}", panic_class(&p)), format!("decode_positions panicked: {p}"), json!({"trajectory": traj_json(tr), "steps": steps_json(steps), "time_base": TIME_BASE.with(|b| b.get())}));
            return Some(0);
        }
    };
    let mut fixes = 0;
    for (k, (r, g)) in reports.iter().zip(got.iter()).enumerate() {
        if let Some((lat, lon)) = g {
            fixes += 1;
            if !r.judge {
                continue;
            }
            let d = haversine_m(r.truth.0, r.truth.1, *lat, *lon);
            if !(d <= 25.0) {
                let kind = if r.surface { "surface" } else { "airborne" };
                let prev_kind = if k > 0 && reports[k - 1].surface != r.surface { ":after-phase-change" } else { "" };
                rep.violation(
                    &format!("wrong-position:{kind}{prev_kind}"),
                    format!("report {k} ({kind}, t={}) was encoded at ({:.5}, {:.5}) and is given ({lat:.5}, {lon:.5}): {:.0} m off; trajectory {}", r.t, r.truth.0, r.truth.1, d, tr.name),
                    json!({"trajectory": traj_json(tr), "steps": steps_json(steps), "time_base": TIME_BASE.with(|b| b.get())}),
                );
            }
        }
    }
    Some(fixes)
}

pub fn catalogue(thorough: bool) -> Vec<Traj> {
    let mut starts: Vec<(&str, f64, f64)> = vec![
        ("equator/Greenwich", 0.0005, 0.0005),
        ("below NL 59->58", 10.4699, 20.0),
        ("below NL 31->30", 59.9540, -30.0),
        ("below NL 3->2", 86.5350, 100.0),
        ("below 87", 86.9995, -100.0),
        ("near pole", 89.2, 45.0),
        ("latitude zone edge 48", 47.9995, 11.0),
        ("antimeridian", 35.0, 179.995),
        ("south mirror of NL 59->58", -10.4699, -20.0),
        ("south zone edge", -36.0005, 150.0),
        ("mid latitude", 43.6, 1.4),
        ("low latitude 3 deg", 3.0005, 20.0),
    ];
    if !thorough {
        starts.truncate(12);
    }
    let mut v = Vec::new();
    for (name, lat, lon) in &starts {
        let headings: &[f64] = if thorough { &[0.0, 45.0, 90.0, 135.0, 180.0, 225.0, 270.0, 315.0] } else { &[0.0, 90.0, 225.0] };
        for h in headings {
            for kt in [700.0, 120.0] {
                v.push(Traj { name: format!("{name} hdg {h} {kt} kt airborne"), lat0: *lat, lon0: *lon, heading: *h, kt, phase: Phase::Air, reference_nm: None });
            }
        }
        v.push(Traj { name: format!("{name} stationary airborne"), lat0: *lat, lon0: *lon, heading: 0.0, kt: 0.0, phase: Phase::Air, reference_nm: Some(20.0) });
        for refnm in [Some(0.0), Some(20.0), Some(40.0)] {
            v.push(Traj { name: format!("{name} stationary surface ref {refnm:?}"), lat0: *lat, lon0: *lon, heading: 0.0, kt: 0.0, phase: Phase::Surface, reference_nm: refnm });
            v.push(Traj { name: format!("{name} taxi 30 kt surface ref {refnm:?}"), lat0: *lat, lon0: *lon, heading: 90.0, kt: 30.0, phase: Phase::Surface, reference_nm: refnm });
        }
        for k in [1usize, 2] {
            for (h, kt) in [(0.0, 250.0), (90.0, 250.0), (180.0, 120.0), (315.0, 140.0)] {
                for refnm in [None, Some(20.0)] {
                    v.push(Traj { name: format!("{name} hdg {h} {kt} kt landing after {k} ref {refnm:?}"), lat0: *lat, lon0: *lon, heading: h, kt, phase: Phase::Landing(k), reference_nm: refnm });
                }
            }
        }
    }
    v
}

/// the gap alphabet: one symbol just below, at and just above every window
/// constant of the decoder, plus the gaps after which a CPR alias of the stale
/// state is reached at this trajectory's speed
pub fn gaps(tr: &Traj, thorough: bool) -> Vec<f64> {
    // negative gaps: neighbouring reports delivered in swapped order (after losses the two may be far apart in time)
    let mut g: Vec<f64> = if thorough { vec![-0.3, 0.0, 0.4, 5.0, 9.9, 10.0, 10.1, 30.0, 179.9, 180.0, 180.1, 600.0, 86_400.0, 86_400.4, 172_805.0, 604_800.4, -5.0, -30.0, -200.0] } else { vec![-0.3, 0.0, 0.4, 9.9, 10.1, 30.0, 179.9, 180.1, 600.0, 86_400.4, -30.0] };
    if tr.kt > 0.0 {
        let h = tr.heading.to_radians();
        let vlat = (tr.kt * h.cos()).abs() / 3600.0 / NM_PER_DEG; // deg/s
        let vlon = (tr.kt * h.sin()).abs() / 3600.0 / NM_PER_DEG / tr.lat0.to_radians().cos().max(0.01);
        let nl = ref_nl_f64(tr.lat0).0 as f64;
        let mut zones: Vec<f64> = Vec::new();
        if vlat > 1e-9 {
            zones.extend([1.5 / vlat, 90.0 / 59.0 / vlat, 6.0 / vlat]);
        }
        if vlon > 1e-9 {
            zones.extend([90.0 / nl / vlon, 360.0 / nl / vlon]);
        }
        for z in zones {
            if z < 200_000.0 {
                g.extend([z - 2.0, z, z + 2.0]);
            }
        }
    }
    g
}

#[allow(clippy::too_many_arguments)]
fn explore_traj(tr: &Traj, prefix: &[Step], min_len: usize, depth: usize, thorough: bool, core_only: bool, carrier: u8, rep: &Report, total: &AtomicU64, steps_total: &AtomicU64, fixes_hist: &std::sync::Mutex<[u64; 8]>, pruned: &AtomicU64) {
    // carrier 0: DF17; 1: DF18 (TIS-B / ADS-R); 2: DF17 and DF18 alternating under the same address
    let tp = templates_on(0x4840d6, if carrier == 1 { 18 } else { 17 });
    let alt = if carrier == 2 { Some(templates_on(0x4840d6, 18)) } else { None };
    let mut gs = gaps(tr, thorough);
    if core_only {
        gs.truncate(if thorough { 16 } else { 10 });
    }
    let mut syms: Vec<Step> = Vec::new();
    for dt in &gs {
        for odd in [false, true] {
            syms.push(Step { dt: *dt, odd, dup: false });
        }
    }
    // the previous report once more, 0.1 s and 0.4 s later
    syms.push(Step { dt: 0.1, odd: false, dup: true });
    syms.push(Step { dt: 0.4, odd: false, dup: true });
    let k = syms.len();
    // alias gaps only as far as depth-1 (they multiply the alphabet)
    let mut idx = vec![0usize; depth];
    let pl = prefix.len();
    let mut steps: Vec<Step> = prefix.to_vec();
    steps.extend(vec![syms[0]; depth]);
    let mut cnt = 0u64;
    let mut st = 0u64;
    let mut hist = [0u64; 8];
    let mut pr = 0u64;
    for len in min_len..=depth {
        for i in idx.iter_mut() {
            *i = 0;
        }
        'outer: loop {
            for d in 0..len {
                steps[pl + d] = syms[idx[d]];
            }
            // the first report defines time zero: its gap is irrelevant, use only the first two symbols (even / odd)
            if idx[0] < 2 || pl > 0 {
                match check_mixed(tr, &tp, alt.as_ref(), &steps[..pl + len], rep) {
                    Some(f) => {
                        hist[f.min(7)] += 1;
                        cnt += 1;
                        st += len as u64;
                    }
                    None => pr += 1,
                }
            }
            if stopped() {
                break;
            }
            let mut d = len;
            loop {
                if d == 0 {
                    break 'outer;
                }
                d -= 1;
                idx[d] += 1;
                if idx[d] < if d == 0 && pl == 0 { 2 } else { k } {
                    break;
                }
                idx[d] = 0;
            }
        }
    }
    total.fetch_add(cnt, Ordering::Relaxed);
    steps_total.fetch_add(st, Ordering::Relaxed);
    pruned.fetch_add(pr, Ordering::Relaxed);
    let mut g = fixes_hist.lock().unwrap();
    for i in 0..8 {
        g[i] += hist[i];
    }
}

pub fn run(ctx: &Ctx, rep: &Report) {
    rep.set_rule("all histories of (gap, parity) steps up to a depth per trajectory of a catalogue; two-aircraft runs in all merge orders; non-trivial = histories in which at least one report was given a position");
    rep.assume("the trajectory is a rhumb line at constant speed (<= 700 kt); each report is encoded from the position at its own time stamp; a surface report is only sent within 40 NM of the receiver reference when one is configured");
    rep.assume("reports whose encoded latitude lies within 1e-9 degree of an NL transition are fed to the decoder but not judged");
    let thorough = ctx.thorough();
    let depth = if thorough { 4 } else { 3 };
    let cat = catalogue(thorough);
    // conformance of the template shortcut: a freshly decoded frame equals the template with the codes set
    {
        let tp = templates(0x4840d6);
        for i in 0..2000u32 {
            let (yz, xz) = ((i * 65_537 + 17) & 0x1ffff, (i * 92_821 + 5) & 0x1ffff);
            let odd = i & 1 == 1;
            let f = df17(5, 0x4840d6, &me_bds05(11, 0, 0, ac12_q(10000), 0, odd as u8, yz, xz), 0);
            let g = df17(5, 0x4840d6, &me_bds06(7, 20, 1, 10, 0, odd as u8, yz, xz), 0);
            // (the parity field and the CRC remainder of the frame are not part of the position message)
            let me_of = |m: Option<Message>| -> Option<ME> {
                match m?.df {
                    DF::ExtendedSquitterADSB(a) => Some(a.message),
                    _ => None,
                }
            };
            if me_of(Message::try_from(f.as_slice()).ok()) != me_of(Some(make_msg(&tp, false, odd, yz, xz))) || me_of(Message::try_from(g.as_slice()).ok()) != me_of(Some(make_msg(&tp, true, odd, yz, xz))) {
                rep.violation("harness:template", "a decoded frame differs from the template with the same codes".into(), json!({"yz": yz, "xz": xz}));
                return;
            }
        }
    }
    let total = AtomicU64::new(0);
    let steps_total = AtomicU64::new(0);
    let pruned = AtomicU64::new(0);
    let hist = std::sync::Mutex::new([0u64; 8]);
    par_items(ctx.threads, cat.len(), |i| {
        explore_traj(&cat[i], &[], 1, depth, thorough, false, 0, rep, &total, &steps_total, &hist, &pruned);
    });
    // one step deeper on the core gaps (without the alias gaps)
    par_items(ctx.threads, cat.len(), |i| {
        explore_traj(&cat[i], &[], depth + 1, depth + 1, thorough, true, 0, rep, &total, &steps_total, &hist, &pruned);
    });
    // the same position messages carried by DF18, and DF17 / DF18 alternating for one address (core gaps)
    let every = if thorough { 2 } else { 3 };
    let subcat: Vec<&Traj> = cat.iter().step_by(every).collect();
    par_items(ctx.threads, subcat.len() * 2, |i| {
        explore_traj(subcat[i / 2], &[], 1, depth, thorough, true, 1 + (i % 2) as u8, rep, &total, &steps_total, &hist, &pruned);
    });
    // non-initial states: the exploration is restarted after three five-report prefixes that set the per-aircraft
    // state up (an established track of alternating reports; a fix followed by duplicates; five reports from one spot)
    {
        let e = |dt: f64| Step { dt, odd: false, dup: false };
        let o = |dt: f64| Step { dt, odd: true, dup: false };
        let prefixes: Vec<Vec<Step>> = vec![vec![e(0.0), o(0.4), e(0.4), o(0.4), e(0.4)], vec![e(0.0), o(0.5), Step { dt: 0.1, odd: true, dup: true }, Step { dt: 0.1, odd: true, dup: true }, Step { dt: 0.1, odd: true, dup: true }], vec![e(0.0), o(0.0), e(0.0), o(0.0), e(0.0)]];
        let sd = if thorough { 3 } else { 2 };
        par_items(ctx.threads, cat.len() * prefixes.len(), |i| {
            explore_traj(&cat[i / prefixes.len()], &prefixes[i % prefixes.len()], 1, sd, thorough, thorough, 0, rep, &total, &steps_total, &hist, &pruned);
        });
    }
    // long flights: every pattern of one to three (gap, parity) steps over five gaps, repeated 12 and 60 times
    // (state that accumulates over many reports: counters, filters, caches)
    {
        let pgaps = [0.4, 5.0, 9.9, 30.0, 179.0];
        let mut psyms: Vec<Step> = Vec::new();
        for g in pgaps {
            for odd in [false, true] {
                psyms.push(Step { dt: g, odd, dup: false });
            }
        }
        let mut pats: Vec<Vec<Step>> = Vec::new();
        for a in &psyms {
            pats.push(vec![*a]);
            for b in &psyms {
                pats.push(vec![*a, *b]);
                if thorough {
                    for c in &psyms {
                        pats.push(vec![*a, *b, *c]);
                    }
                }
            }
        }
        let subcat: Vec<&Traj> = cat.iter().step_by(if thorough { 3 } else { 7 }).collect();
        par_items(ctx.threads, subcat.len(), |i| {
            let tr = subcat[i];
            let tp = templates(0x4840d6);
            let mut cnt = 0u64;
            let mut st = 0u64;
            let mut h = [0u64; 8];
            let mut pr = 0u64;
            for pat in &pats {
                for times in [12usize, 60] {
                    let mut steps: Vec<Step> = Vec::with_capacity(pat.len() * times);
                    for _ in 0..times {
                        steps.extend(pat.iter().cloned());
                    }
                    match check(tr, &tp, &steps, rep) {
                        Some(f) => {
                            h[f.min(7)] += 1;
                            cnt += 1;
                            st += steps.len() as u64;
                        }
                        None => pr += 1,
                    }
                }
            }
            total.fetch_add(cnt, Ordering::Relaxed);
            steps_total.fetch_add(st, Ordering::Relaxed);
            pruned.fetch_add(pr, Ordering::Relaxed);
            let mut g = hist.lock().unwrap();
            for k in 0..8 {
                g[k] += h[k];
            }
        });
    }
    // the same histories with Unix-time stamps (1.7e9 s) on every third trajectory
    {
        let ucat: Vec<&Traj> = cat.iter().step_by(3).collect();
        par_items(ctx.threads, ucat.len(), |i| {
            TIME_BASE.with(|b| b.set(1_700_000_000.0));
            explore_traj(ucat[i], &[], 1, depth, thorough, true, 0, rep, &total, &steps_total, &hist, &pruned);
            TIME_BASE.with(|b| b.set(1000.0));
        });
    }
    // a coarse clock: Unix-time bases at several offsets within a 128-s grid cell (the spacing of single-precision
    // numbers at 1.7e9) x all histories of 3 and 4 reports over gaps of 0.4 .. 100 s, for the fast airborne trajectories
    {
        let fast: Vec<&Traj> = cat.iter().filter(|t| matches!(t.phase, Phase::Air) && t.kt >= 700.0).collect();
        let cgaps = [0.4, 30.0, 60.0, 70.0, 100.0];
        let bases = [1_700_000_000.0, 1_700_000_040.0, 1_700_000_070.0, 1_700_000_100.5];
        par_items(ctx.threads, fast.len() * bases.len(), |i| {
            let (tr, base) = (fast[i / bases.len()], bases[i % bases.len()]);
            let tp = templates(0x4840d6);
            TIME_BASE.with(|b| b.set(base));
            let (mut cnt, mut st) = (0u64, 0u64);
            for len in [3usize, 4] {
                let combos = (cgaps.len() * 2).pow(len as u32 - 1) * 2;
                for mut k in 0..combos {
                    let mut steps = vec![Step { dt: 0.0, odd: k % 2 == 1, dup: false }];
                    k /= 2;
                    for _ in 1..len {
                        let g = cgaps[k % cgaps.len()];
                        k /= cgaps.len();
                        steps.push(Step { dt: g, odd: k % 2 == 1, dup: false });
                        k /= 2;
                    }
                    if check(tr, &tp, &steps, rep).is_some() {
                        cnt += 1;
                        st += len as u64;
                    }
                    if stopped() {
                        break;
                    }
                }
            }
            TIME_BASE.with(|b| b.set(1000.0));
            total.fetch_add(cnt, Ordering::Relaxed);
            steps_total.fetch_add(st, Ordering::Relaxed);
        });
    }
    rep.part("single aircraft (DF17; DF18 and DF17/DF18 alternating on a sub-catalogue; periodic long flights; Unix-time stamps on every third trajectory; coarse-clock family)", total.load(Ordering::Relaxed), json!({"trajectories": cat.len(), "depth": depth, "reports": steps_total.load(Ordering::Relaxed), "pruned_out_of_range": pruned.load(Ordering::Relaxed)}));
    // two aircraft: all merge orders of two 3-report sequences
    let sub: Vec<&Traj> = cat.iter().filter(|t| t.reference_nm != Some(40.0)).step_by((cat.len() / if thorough { 24 } else { 10 }).max(1)).collect();
    let mut sub = sub;
    if !sub.iter().any(|t| matches!(t.phase, Phase::Surface)) {
        if let Some(t) = cat.iter().find(|t| matches!(t.phase, Phase::Surface) && t.reference_nm == Some(0.0) && t.kt > 0.0) {
            sub.push(t);
        }
    }
    let pair_total = AtomicU64::new(0);
    // 4000 s: longer than any retention a decoder may apply to silent aircraft
    let small_gaps = [0.0, 0.4, 9.9, 30.0, 4000.0];
    let seqs: Vec<Vec<Step>> = {
        let mut v = Vec::new();
        for a in 0..2 {
            for g1 in small_gaps {
                for b in 0..2 {
                    for g2 in small_gaps {
                        for c in 0..2 {
                            v.push(vec![Step { dt: 0.0, odd: a == 1, dup: false }, Step { dt: g1, odd: b == 1, dup: false }, Step { dt: g2, odd: c == 1, dup: false }]);
                        }
                    }
                }
            }
        }
        v
    };
    // merge orders: which of the 6 slots belong to aircraft X (3 of 6)
    let merges: Vec<[bool; 6]> = (0..64u32).filter(|m| m.count_ones() == 3).map(|m| { let mut a = [false; 6]; for i in 0..6 { a[i] = m & (1 << i) != 0; } a }).collect();
    let pairs: Vec<(usize, usize)> = (0..sub.len()).flat_map(|a| (0..sub.len()).map(move |b| (a, b))).collect();
    par_items(ctx.threads, pairs.len(), |pi| {
        let (ia, ib) = pairs[pi];
        let (ta, tb) = (sub[ia], sub[ib]);
        // the receiver reference is shared: use aircraft X's
        let reference = ta.reference();
        let (tpa_high, tpa_low, tpb) = (templates(0x4840d6), templates_alt(0x4840d6, 17, 500), templates(0x4840d7));
        let mut n = 0u64;
        for (si, sa) in seqs.iter().enumerate() {
          // the first aircraft flies at 10,000 ft or at 500 ft (every other sequence)
          let tpa = if si % 2 == 1 { &tpa_low } else { &tpa_high };
          // the second aircraft is first heard at the same time, or 4000.2 s later (between two reports of the first)
          for b_offset in [0.0, 4000.2] {
            let mut sb = seqs[(si * 7 + 3) % seqs.len()].clone();
            sb[0].dt = b_offset;
            let sb = &sb;
            let (Some(ra), Some(rb)) = (build(ta, tpa, sa), build(tb, &tpb, sb)) else { continue };
            let solo_a = run_decoder(&ra.iter().collect::<Vec<_>>(), reference);
            let solo_b = run_decoder(&rb.iter().collect::<Vec<_>>(), reference);
            // bystanders: 0, 2 or 7 other aircraft heard (and fixed) before, only in the interleaved run
            let crowd_n = [0usize, 2, 7][(si + pi) % 3];
            let crowd: Vec<Report1> = (0..crowd_n)
                .flat_map(|c| build(tb, &templates(0x500000 + c as u32), &[Step { dt: 0.0, odd: false, dup: false }, Step { dt: 0.4, odd: true, dup: false }]).unwrap_or_default())
                .collect();
            for m in &merges {
                let mut order: Vec<&Report1> = Vec::with_capacity(6 + crowd.len());
                order.extend(crowd.iter());
                let (mut i, mut j) = (0, 0);
                for s in m {
                    if *s {
                        order.push(&ra[i]);
                        i += 1;
                    } else {
                        order.push(&rb[j]);
                        j += 1;
                    }
                }
                let both = run_decoder(&order, reference);
                n += 1;
                if let (Ok(both), Ok(sa_), Ok(sb_)) = (&both, &solo_a, &solo_b) {
                    let both = &both[crowd.len()..];
                    let xa: Vec<_> = m.iter().zip(both.iter()).filter(|(s, _)| **s).map(|(_, p)| *p).collect();
                    let xb: Vec<_> = m.iter().zip(both.iter()).filter(|(s, _)| !**s).map(|(_, p)| *p).collect();
                    if &xa != sa_ || &xb != sb_ {
                        rep.violation(
                            "interference",
                            format!("what is decoded for one aircraft changes when another aircraft's reports are interleaved ({} / {})", ta.name, tb.name),
                            json!({"two": [traj_json(ta), traj_json(tb)], "steps": [steps_json(sa), steps_json(sb)], "merge": m.iter().map(|b| *b as u8).collect::<Vec<_>>(), "bystanders": crowd_n}),
                        );
                    }
                } else {
                    rep.violation("panic:two-aircraft", "decode_positions panicked on an interleaved run".into(), json!({"two": [traj_json(ta), traj_json(tb)], "steps": [steps_json(sa), steps_json(sb)]}));
                }
            }
          }
        }
        pair_total.fetch_add(n, Ordering::Relaxed);
    });
    rep.part("two aircraft, all merge orders", pair_total.load(Ordering::Relaxed), json!({"trajectories": sub.len(), "sequences": seqs.len(), "merge_orders": merges.len()}));
    // a crowd: one aircraft is heard (fix, silence of 200 s, an even report, then an odd one a second later) and between
    // its last two reports N other aircraft are heard once each - N beyond any table size a decoder may have chosen
    // (2^16). What is decoded for the aircraft must not depend on the crowd; the crowd may also come first.
    let crowd_total = AtomicU64::new(0);
    {
        let tr = cat.iter().find(|t| t.name.starts_with("mid latitude") && matches!(t.phase, Phase::Air) && t.kt > 0.0).unwrap_or(&cat[0]);
        let tp = templates(0x4840d6);
        let victim_steps = [Step { dt: 0.0, odd: false, dup: false }, Step { dt: 0.4, odd: true, dup: false }, Step { dt: 200.0, odd: false, dup: false }, Step { dt: 1.0, odd: true, dup: false }];
        if let Some(victim) = build(tr, &tp, &victim_steps) {
            let solo = run_decoder(&victim.iter().collect::<Vec<_>>(), tr.reference());
            let sizes: &[usize] = if thorough { &[1000, 70_000, 300_000] } else { &[1000, 70_000] };
            for n in sizes {
                let t_mid = victim[2].t + 0.5;
                let crowd: Vec<Report1> = (0..*n)
                    .map(|c| {
                        let tpc = templates(0x100000 + c as u32);
                        let (yz, xz, _) = encode(10.0 + (c % 50) as f64, 20.0, c % 2 == 1, false);
                        Report1 { t: t_mid, truth: (10.0 + (c % 50) as f64, 20.0), judge: false, surface: false, msg: make_msg(&tpc, false, c % 2 == 1, yz, xz) }
                    })
                    .collect();
                for place in ["between the last two reports", "before everything"] {
                    let mut order: Vec<&Report1> = Vec::with_capacity(victim.len() + crowd.len());
                    let mut crowd_first: Vec<Report1> = Vec::new();
                    if place == "before everything" {
                        crowd_first = crowd.iter().map(|r| Report1 { t: victim[0].t - 1.0, truth: r.truth, judge: false, surface: false, msg: r.msg.clone() }).collect();
                    }
                    let at: Vec<usize>;
                    if place == "before everything" {
                        order.extend(crowd_first.iter());
                        at = (crowd_first.len()..crowd_first.len() + victim.len()).collect();
                        order.extend(victim.iter());
                    } else {
                        order.extend(victim[..3].iter());
                        order.extend(crowd.iter());
                        order.push(&victim[3]);
                        at = vec![0, 1, 2, 3 + crowd.len()];
                    }
                    let both = run_decoder(&order, tr.reference());
                    crowd_total.fetch_add(1, Ordering::Relaxed);
                    match (&both, &solo) {
                        (Ok(b), Ok(s0)) => {
                            let mine: Vec<_> = at.iter().map(|i| b[*i]).collect();
                            if &mine != s0 {
                                rep.violation("interference:crowd", format!("with {n} other aircraft heard {place}, the aircraft's reports are given {mine:?} instead of {s0:?}"), json!({"crowd": n, "place": place, "trajectory": traj_json(tr)}));
                            }
                        }
                        _ => rep.violation("panic:crowd", "decode_positions panicked on a crowd run".into(), json!({"crowd": n, "place": place})),
                    }
                }
            }
        }
        rep.part("one aircraft among a crowd of up to 70,000 (thorough 300,000) others", crowd_total.load(Ordering::Relaxed), json!({}));
    }
    // time stamps that are not finite: two reports encoded two hours of flight apart (so that pairing them
    // would be wrong), optionally after a normal fix; whatever position is attached must still be the true one
    let weird_total = AtomicU64::new(0);
    {
        // (finite stamps stay truthful: a finite stamp that contradicts the flight would make a wrong pairing legitimate)
        let stamps = [f64::NAN, f64::INFINITY, f64::NEG_INFINITY, -0.0];
        let sub2: Vec<&Traj> = cat.iter().filter(|t| matches!(t.phase, Phase::Air) && t.kt >= 400.0).step_by(5).collect();
        par_items(ctx.threads, sub2.len(), |ti| {
            let tr = sub2[ti];
            let tp = templates(0x4840d6);
            let mut n = 0u64;
            for with_fix in [false, true] {
                for p1 in [false, true] {
                    for p2 in [false, true] {
                        let mut steps = Vec::new();
                        if with_fix {
                            steps.push(Step { dt: 0.0, odd: false, dup: false });
                            steps.push(Step { dt: 0.4, odd: true, dup: false });
                        }
                        steps.push(Step { dt: if with_fix { 7200.0 } else { 0.0 }, odd: p1, dup: false });
                        steps.push(Step { dt: 7200.0, odd: p2, dup: false });
                        let Some(base) = build(tr, &tp, &steps) else { continue };
                        let k = base.len();
                        for a in stamps {
                            for b in stamps {
                                let mut reports: Vec<Report1> = base.iter().map(|r| Report1 { t: r.t, truth: r.truth, judge: r.judge, surface: r.surface, msg: r.msg.clone() }).collect();
                                // -0.0 stands for "keep the true time"
                                if a == 0.0 && b == 0.0 {
                                    continue;
                                }
                                if a != 0.0 {
                                    reports[k - 2].t = a;
                                }
                                if b != 0.0 {
                                    reports[k - 1].t = b;
                                }
                                n += 1;
                                let wit = json!({"weird_stamps": [format!("{a:e}"), format!("{b:e}")], "with_fix": with_fix, "parities": [p1, p2], "trajectory": traj_json(tr)});
                                match run_decoder(&reports.iter().collect::<Vec<_>>(), tr.reference()) {
                                    Err(p) => rep.violation(&format!("panic:timestamps:{}", panic_class(&p)), format!("decode_positions panicked with time stamps {a:e} / {b:e}: {p}"), wit),
                                    Ok(got) => {
                                        for (i, (r, g)) in reports.iter().zip(got.iter()).enumerate() {
                                            if let Some((lat, lon)) = g {
                                                let d = haversine_m(r.truth.0, r.truth.1, *lat, *lon);
                                                if r.judge && !(d <= 25.0) {
                                                    rep.violation("wrong-position:timestamps", format!("with time stamps {a:e} / {b:e} on the last two reports, report {i} encoded at ({:.5},{:.5}) is given ({lat:.5},{lon:.5}), {d:.0} m off", r.truth.0, r.truth.1), wit.clone());
                                                }
                                            }
                                        }
                                    }
                                }
                            }
                        }
                    }
                }
            }
            weird_total.fetch_add(n, Ordering::Relaxed);
        });
        rep.part("non-finite time stamps on reports two hours of flight apart", weird_total.load(Ordering::Relaxed), json!({"trajectories": sub2.len()}));
    }
    let g = hist.lock().unwrap();
    let mut nontriv = 0;
    for (i, c) in g.iter().enumerate() {
        if *c > 0 {
            rep.outcome(&format!("{i} reports given a position"), *c);
            if i > 0 {
                nontriv += c;
            }
        }
    }
    let t = total.load(Ordering::Relaxed) + pair_total.load(Ordering::Relaxed) + crowd_total.load(Ordering::Relaxed) + weird_total.load(Ordering::Relaxed);
    rep.sample(json!({"trajectory": traj_json(&cat[0]), "steps": steps_json(&[Step { dt: 0.0, odd: false, dup: false }, Step { dt: 0.4, odd: true, dup: false }, Step { dt: 9.9, odd: false, dup: false }])}));
    rep.sample(json!({"trajectory": traj_json(cat.iter().find(|t| matches!(t.phase, Phase::Landing(_))).unwrap_or(&cat[0]))}));
    rep.eval(t);
    rep.trans(steps_total.load(Ordering::Relaxed) + 6 * pair_total.load(Ordering::Relaxed));
    rep.state(t);
    rep.nontriv(nontriv);
    rep.set_bound(&format!("{} trajectories x all (gap, parity) histories of length <= {depth} over {}+ gaps incl. alias gaps and of length {} over the core gaps; {} x {} trajectory pairs x {} sequence pairs x 20 merge orders", cat.len(), if thorough { 16 } else { 10 }, depth + 1, sub.len(), sub.len(), seqs.len()));
    if !thorough {
        rep.not_exhaustive("quick tier: 3 headings per start, 9 core gaps, depth 3 (4 on the core gaps)");
    }
}

pub fn replay(w: &Value, rep: &Report) {
    let parse_steps = |v: &Value| -> Vec<Step> { v.as_array().map(|a| a.iter().map(|s| Step { dt: s[0].as_f64().unwrap_or(0.0), odd: s[1].as_str() == Some("odd"), dup: s[1].as_str() == Some("again") }).collect()).unwrap_or_default() };
    if w.get("trajectory").is_some() {
        TIME_BASE.with(|b| b.set(w["time_base"].as_f64().unwrap_or(1000.0)));
        let tr = traj_from_json(&w["trajectory"]);
        let steps = parse_steps(&w["steps"]);
        check(&tr, &templates(0x4840d6), &steps, rep);
    } else {
        eprintln!("two-aircraft witnesses are replayed by the full check");
    }
    rep.trans(1);
    rep.state(1);
    rep.sample(w.clone());
    rep.outcome("replayed", 1);
}

//! C13 — altitude (AC13 / AC12 / Gillham) and identity codes, all codes.

use crate::common::*;
use rs1090::decode::adsb::ME;
use rs1090::decode::{decode_id13, gray2alt, Message, DF};
use serde_json::{json, Value};
use std::collections::BTreeMap;

// ---------------------------------------------------------------------------
// R-ALT: constructive Gillham sequence, written from Annex 10 vol IV 3.1.1.7.12.2.3

/// Names of the 13 field bits, MSB (message bit 20) first.
const FIELD_BITS: [&str; 13] = ["C1", "A1", "C2", "A2", "C4", "A4", "X", "B1", "D1", "B2", "D2", "B4", "D4"];

/// Position (bit mask) of a pulse name in the 13-bit field.
fn field_mask(name: &str) -> u16 {
    let i = FIELD_BITS.iter().position(|n| *n == name).unwrap();
    1 << (12 - i)
}

/// Position of a pulse in the A/B/C/D-nibble layout (what decode_id13 returns
/// and gray2alt takes): 0xABCD with X4 X2 X1 as bits 2,1,0 of each nibble.
fn nibble_mask(name: &str) -> u16 {
    let (grp, w) = name.split_at(1);
    let sh = match grp {
        "A" => 12,
        "B" => 8,
        "C" => 4,
        _ => 0,
    };
    let bit = match w {
        "4" => 4,
        "2" => 2,
        _ => 1,
    };
    bit << sh
}

pub fn ref_id13(field: u16) -> u16 {
    let mut out = 0;
    for n in FIELD_BITS {
        if n != "X" && field & field_mask(n) != 0 {
            out |= nibble_mask(n);
        }
    }
    out
}

/// Gillham code (as a set of pulse names) of 100-ft step s: altitude = -1200 + 100 s, s in 0..1280
fn gillham_pulses(s: u32) -> Vec<&'static str> {
    let n500 = s / 5;
    let r = s % 5;
    let n100 = if n500 % 2 == 0 { r + 1 } else { 5 - r };
    let gray = n500 ^ (n500 >> 1); // reflected binary Gray code on D2 D4 A1 A2 A4 B1 B2 B4
    let order = ["D2", "D4", "A1", "A2", "A4", "B1", "B2", "B4"];
    let mut v = Vec::new();
    for (i, n) in order.iter().enumerate() {
        if gray & (1 << (7 - i)) != 0 {
            v.push(*n);
        }
    }
    // 100-ft increments on C1 C2 C4: 1→001 2→011 3→010 4→110 5→100
    let c: &[&str] = match n100 {
        1 => &["C4"],
        2 => &["C2", "C4"],
        3 => &["C2"],
        4 => &["C1", "C2"],
        _ => &["C1"],
    };
    v.extend_from_slice(c);
    v
}

pub struct RefAlt {
    /// nibble-layout code → altitude in ft
    pub by_nibble: BTreeMap<u16, i32>,
    /// 13-bit field code (M=0,Q=0) → altitude in ft
    pub by_field: BTreeMap<u16, i32>,
}

impl RefAlt {
    pub fn new() -> Self {
        let mut by_nibble = BTreeMap::new();
        let mut by_field = BTreeMap::new();
        for s in 0..1280u32 {
            let p = gillham_pulses(s);
            let alt = -1200 + 100 * s as i32;
            let nb = p.iter().fold(0u16, |a, n| a | nibble_mask(n));
            let fb = p.iter().fold(0u16, |a, n| a | field_mask(n));
            assert!(by_nibble.insert(nb, alt).is_none());
            assert!(by_field.insert(fb, alt).is_none());
        }
        RefAlt { by_nibble, by_field }
    }
    /// Standard's altitude of a 13-bit AC code; None = illegal / no information.
    /// Some(Err(())) = metric (not judged).
    pub fn ac13(&self, code: u16) -> Result<Option<i32>, ()> {
        if code & 0x0040 != 0 {
            return Err(());
        }
        if code & 0x0010 != 0 {
            let n = ((code & 0x1f80) >> 2) | ((code & 0x0020) >> 1) | (code & 0x000f);
            return Ok(Some(25 * n as i32 - 1000));
        }
        Ok(self.by_field.get(&code).copied())
    }
}

fn seal_ap(f: &mut [u8]) {
    seal(f, 0x4840d6);
}

pub fn frame_with_ac(df: u8, code: u16) -> Vec<u8> {
    frame_with_ac_hdr(df, code, 0)
}

/// `hdr`: the 14 header bits between the format number and the altitude code (VS CC SL RI of DF0/16, FS DR UM of
/// DF4/20): context that must not change the altitude
pub fn frame_with_ac_hdr(df: u8, code: u16, hdr: u16) -> Vec<u8> {
    let long = df & 0x10 != 0;
    let mut f = vec![0u8; if long { 14 } else { 7 }];
    f[0] = df << 3;
    set_bits(&mut f, 5, 14, hdr as u64 & 0x3fff);
    set_bits(&mut f, 19, 13, code as u64);
    seal_ap(&mut f);
    f
}

/// header contexts: each of the 14 bits alone, all set, two alternating patterns, every flight status / VS-CC-SL
/// combination of the first three bits
pub fn header_contexts() -> Vec<u16> {
    let mut v: Vec<u16> = (0..14).map(|b| 1u16 << b).collect();
    v.extend([0x3fff, 0x1555, 0x2aaa]);
    v.extend((3..8u16).map(|fs| fs << 11));
    v.sort();
    v.dedup();
    v
}

fn ac_of(m: &Message) -> Option<u16> {
    match &m.df {
        DF::ShortAirAirSurveillance { ac, .. }
        | DF::SurveillanceAltitudeReply { ac, .. }
        | DF::LongAirAirSurveillance { ac, .. }
        | DF::CommBAltitudeReply { ac, .. } => Some(ac.0),
        _ => None,
    }
}

pub fn frame_with_ac12(tc: u8, code: u16) -> Vec<u8> {
    let mut f = vec![0u8; 14];
    f[0] = 0x8d;
    f[1] = 0x48;
    f[2] = 0x40;
    f[3] = 0xd6;
    set_bits(&mut f, 32, 5, tc as u64);
    set_bits(&mut f, 40, 12, code as u64);
    set_bits(&mut f, 54, 17, 0x12345);
    set_bits(&mut f, 71, 17, 0x0abcd);
    seal(&mut f, 0);
    f
}

fn decode(f: &[u8]) -> Result<Message, String> {
    set_case_bytes(13, f);
    match guarded(|| Message::try_from(f)) {
        Err(p) => Err(format!("panic: {p}")),
        Ok(Err(e)) => Err(format!("rejected: {e}")),
        Ok(Ok(m)) => Ok(m),
    }
}

/// What may be reported for a standard altitude `std` (None = illegal) in a u16 / Option<u16>.
fn acceptable(std: Option<i32>, got: Option<u16>) -> bool {
    let g = got.unwrap_or(0) as i32;
    match std {
        None => g == 0,
        Some(a) if a <= 0 || a > 65535 => g == 0,
        Some(a) => g == a,
    }
}

fn check_ac13(r: &RefAlt, df: u8, code: u16) -> Option<(String, String)> {
    check_ac13_hdr(r, df, code, 0)
}

fn check_ac13_hdr(r: &RefAlt, df: u8, code: u16, hdr: u16) -> Option<(String, String)> {
    let f = frame_with_ac_hdr(df, code, hdr);
    let m = match decode(&f) {
        Ok(m) => m,
        Err(e) => return Some((format!("ac13:decode:DF{df}"), format!("frame {} (AC={code:#06x}) {e}", hexs(&f)))),
    };
    let got = match ac_of(&m) {
        Some(g) => g,
        None => return Some((format!("ac13:shape:DF{df}"), format!("frame {} not decoded as DF{df}", hexs(&f)))),
    };
    match r.ac13(code) {
        Err(()) => None, // metric: totality only
        Ok(std) => {
            if acceptable(std, Some(got)) {
                None
            } else {
                let kind = if code & 0x10 != 0 { "25ft" } else { "gillham" };
                let sub = match std {
                    None => "illegal-code-reported",
                    Some(a) if a > 65535 => "not-representable",
                    Some(a) if a <= 0 => "non-positive",
                    _ => "value",
                };
                Some((format!("ac13:{kind}:{sub}"), format!("DF{df} AC code {code:#06x}: reported {got} ft, standard says {}", std.map_or("illegal code".to_string(), |a| format!("{a} ft")))))
            }
        }
    }
}

fn me_alt(m: &Message) -> Option<Option<u16>> {
    match &m.df {
        DF::ExtendedSquitterADSB(a) => match &a.message {
            ME::BDS05(p) => Some(p.alt),
            _ => None,
        },
        _ => None,
    }
}

fn check_ac12(r: &RefAlt, tc: u8, code: u16) -> Option<(String, String)> {
    let f = frame_with_ac12(tc, code);
    let m = match decode(&f) {
        Ok(m) => m,
        Err(e) => return Some(("ac12:decode".into(), format!("frame {} (ALT={code:#05x}) {e}", hexs(&f)))),
    };
    let got = match me_alt(&m) {
        Some(g) => g,
        None => return Some(("ac12:shape".into(), format!("frame {} not decoded as BDS 0,5", hexs(&f)))),
    };
    // the 12-bit code is the 13-bit code with the M bit removed
    let code13 = ((code & 0x0fc0) << 1) | (code & 0x003f);
    let std = r.ac13(code13).unwrap();
    if !acceptable(std, got) {
        let kind = if code & 0x10 != 0 { "25ft" } else { "gillham" };
        return Some((format!("ac12:{kind}:value"), format!("TC{tc} ALT code {code:#05x}: reported {got:?}, standard says {std:?}")));
    }
    // this field is an Option: an altitude of exactly 0 ft is representable (Some(0)) and is not the same thing as
    // 'unavailable' (None) - unlike in the u16 of the 13-bit reader, where 0 has to stand for both
    if std == Some(0) && got != Some(0) {
        let kind = if code & 0x10 != 0 { "25ft" } else { "gillham" };
        return Some((format!("ac12:{kind}:zero-altitude"), format!("TC{tc} ALT code {code:#05x} denotes 0 ft: reported {got:?}")));
    }
    // both encodings agree on the same code
    let f13 = frame_with_ac(4, code13);
    if let Ok(m13) = decode(&f13) {
        let a13 = ac_of(&m13).unwrap_or(0);
        if a13 != got.unwrap_or(0) {
            let rep13 = if std.map_or(false, |a| a > 65535) { "not-representable" } else { "value" };
            return Some((format!("ac12-vs-ac13:{rep13}"), format!("code {code13:#06x}: 13-bit reader says {a13} ft, 12-bit reader says {got:?} (standard {std:?})")));
        }
    }
    None
}

fn check_gray(r: &RefAlt, g: u16) -> Option<(String, String)> {
    set_case(13, g as u64, 1, 0);
    let got = match guarded(|| gray2alt(g)) {
        Err(p) => return Some(("gray2alt:panic".into(), format!("gray2alt({g:#06x}) panicked: {p}"))),
        Ok(v) => v.ok(),
    };
    let std = r.by_nibble.get(&g).copied();
    match (got, std) {
        (Some(n), None) => Some(("gray2alt:accepts-illegal".into(), format!("gray2alt({g:#06x}) = {n} but the code is not in the Gillham sequence"))),
        (Some(n), Some(a)) if n * 100 != a => Some(("gray2alt:value".into(), format!("gray2alt({g:#06x}) = {n} (×100 ft), standard says {a} ft"))),
        (None, Some(a)) if a >= 0 => Some(("gray2alt:rejects-valid".into(), format!("gray2alt({g:#06x}) is an error, standard says {a} ft"))),
        _ => None,
    }
}

fn check_id(code: u16) -> Option<(String, String)> {
    set_case(13, code as u64, 2, 0);
    let got = match guarded(|| decode_id13(code)) {
        Err(p) => return Some(("id13:panic".into(), format!("decode_id13({code:#06x}) panicked: {p}"))),
        Ok(v) => v,
    };
    let want = ref_id13(code);
    if got != want {
        return Some(("id13:value".into(), format!("decode_id13({code:#06x}) = {got:04x}, Annex 10 bit order gives {want:04x}")));
    }
    for sh in [0, 4, 8, 12] {
        if (got >> sh) & 0xf > 7 {
            return Some(("id13:digit".into(), format!("decode_id13({code:#06x}) = {got:04x} has a non-octal digit")));
        }
    }
    None
}

fn check_squawk_frame(df: u8, code: u16) -> Option<(String, String)> {
    check_squawk_frame_hdr(df, code, 0)
}

fn check_squawk_frame_hdr(df: u8, code: u16, hdr: u16) -> Option<(String, String)> {
    let f = frame_with_ac_hdr(df, code, hdr);
    let m = match decode(&f) {
        Ok(m) => m,
        Err(e) => return Some((format!("id13:decode:DF{df}"), format!("frame {} {e}", hexs(&f)))),
    };
    let got = match &m.df {
        DF::SurveillanceIdentityReply { id, .. } | DF::CommBIdentityReply { id, .. } => id.0,
        _ => return Some((format!("id13:shape:DF{df}"), format!("frame {} not DF{df}", hexs(&f)))),
    };
    if got != ref_id13(code) {
        return Some((format!("id13:frame-value:DF{df}"), format!("DF{df} ID code {code:#06x}: squawk {got:04x}, expected {:04x}", ref_id13(code))));
    }
    None
}

pub fn run(_ctx: &Ctx, rep: &Report) {
    let r = RefAlt::new();
    rep.set_rule("every code of each domain is decoded by the real readers (through complete frames for AC13/AC12/ID) and compared with a constructive Gillham/Gray sequence and the Annex 10 bit tables; non-trivial = codes that denote an altitude / a squawk (not 'unavailable')");
    let mut outs: BTreeMap<String, u64> = BTreeMap::new();
    // (1) all 2^13 AC codes in DF 4, 0, 16, 20
    let mut n = 0u64;
    let hdrs = header_contexts();
    for df in [4u8, 0, 16, 20] {
        for code in 0..8192u16 {
            n += 1;
            if let Some((c, w)) = check_ac13(&r, df, code) {
                rep.violation(&c, w, json!({"kind":"ac13","df":df,"code":code}));
            }
            for hdr in &hdrs {
                n += 1;
                if let Some((c, w)) = check_ac13_hdr(&r, df, code, *hdr) {
                    rep.violation(&format!("{c}:header"), format!("{w} (header bits {hdr:#06x})"), json!({"kind":"ac13","df":df,"code":code,"hdr":hdr}));
                }
            }
            if df == 4 {
                let k = match r.ac13(code) {
                    Err(()) => "metric",
                    Ok(None) => "illegal",
                    Ok(Some(a)) if a <= 0 => "non-positive",
                    Ok(Some(a)) if a > 65535 => "above-u16",
                    Ok(Some(_)) if code & 0x10 != 0 => "25ft",
                    Ok(Some(_)) => "gillham",
                };
                *outs.entry(format!("ac13:{k}")).or_insert(0) += 1;
                if k == "25ft" || k == "gillham" {
                    rep.nontriv(1);
                }
            }
        }
    }
    rep.eval(n);
    rep.part("ac13:all-8192-codes×DF4,0,16,20", n, json!({}));
    // (1') sequences of two decodes: every code right after each of its 13 single-bit neighbours (and after the
    // 12-bit ME form of the same altitude): the value reported for a code must not depend on what was decoded before
    let mut np = 0u64;
    for code in 0..8192u16 {
        for bit in 0..14 {
            let before = if bit < 13 { frame_with_ac(4, code ^ (1 << bit)) } else { frame_with_ac12(11, ((code & 0x1f80) >> 1) | (code & 0x3f)) };
            // an unrelated code first, so that the previous pair (which ended on this very code) does not prime any memo
            let _ = decode(&frame_with_ac(4, !code & 0x1fbf));
            let _ = decode(&before);
            np += 1;
            if let Some((c, w)) = check_ac13(&r, 4, code) {
                rep.violation(&format!("sequence:{c}"), format!("{w} when decoded right after {}", hexs(&before)), json!({"kind":"ac13-after","df":4,"code":code,"after":hexs(&before)}));
            }
        }
    }
    for code in 0..4096u16 {
        for bit in 0..13 {
            let before = if bit < 12 { frame_with_ac12(11, code ^ (1 << bit)) } else { frame_with_ac(4, ((code & 0xfc0) << 1) | (code & 0x3f) | 0x40) };
            let _ = decode(&frame_with_ac12(11, !code & 0xfff));
            let _ = decode(&before);
            np += 1;
            if let Some((c, w)) = check_ac12(&r, 11, code) {
                rep.violation(&format!("sequence:{c}"), format!("{w} when decoded right after {}", hexs(&before)), json!({"kind":"ac12-after","tc":11,"code":code,"after":hexs(&before)}));
            }
        }
    }
    rep.eval(np);
    rep.part("sequences: every code after each single-bit neighbour", np, json!({}));
    // (2) all 2^12 ME codes, TC 9..18 (thorough-equivalent; cheap)
    let mut n2 = 0u64;
    for tc in [11u8, 9, 18, 20] {
        for code in 0..4096u16 {
            n2 += 1;
            if tc == 20 {
                // GNSS height uses the same reader; totality + same value
            }
            if let Some((c, w)) = check_ac12(&r, tc, code) {
                rep.violation(&c, w, json!({"kind":"ac12","tc":tc,"code":code}));
            }
        }
    }
    rep.eval(n2);
    rep.part("ac12:all-4096-codes×TC11,9,18,20", n2, json!({}));
    // (3) gray2alt on all 2^16 arguments
    let mut accepted: BTreeMap<i32, u16> = BTreeMap::new();
    for g in 0..=u16::MAX {
        if let Some((c, w)) = check_gray(&r, g) {
            rep.violation(&c, w, json!({"kind":"gray","code":g}));
        }
        if let Ok(Ok(nv)) = guarded(|| gray2alt(g)) {
            if let Some(prev) = accepted.insert(nv, g) {
                rep.violation("gray2alt:not-injective", format!("gray2alt({prev:#06x}) = gray2alt({g:#06x}) = {nv}"), json!({"kind":"gray-pair","a":prev,"b":g}));
            }
        }
    }
    rep.eval(65536);
    rep.nontriv(accepted.len() as u64);
    // consecutive steps, neighbours differ in exactly one bit
    let steps: Vec<(i32, u16)> = accepted.iter().map(|(a, b)| (*a, *b)).collect();
    for w in steps.windows(2) {
        if w[1].0 != w[0].0 + 1 {
            rep.violation("gray2alt:gap", format!("accepted steps {} and {} are not consecutive", w[0].0, w[1].0), json!({"kind":"gray-pair","a":w[0].1,"b":w[1].1}));
        } else if (w[0].1 ^ w[1].1).count_ones() != 1 {
            rep.violation("gray2alt:not-gray", format!("codes of steps {} and {} differ in {} bits", w[0].0, w[1].0, (w[0].1 ^ w[1].1).count_ones()), json!({"kind":"gray-pair","a":w[0].1,"b":w[1].1}));
        }
    }
    outs.insert("gray2alt:accepted".into(), accepted.len() as u64);
    rep.part("gray2alt:all-65536-arguments", 65536, json!({"accepted": accepted.len(), "first_step": steps.first().map(|s| s.0), "last_step": steps.last().map(|s| s.0)}));
    // (4) decode_id13 on all 2^13 codes: permutation, linear, octal; and through DF5/DF21 frames
    let mut n4 = 0u64;
    for code in 0..8192u16 {
        n4 += 1;
        if let Some((c, w)) = check_id(code) {
            rep.violation(&c, w, json!({"kind":"id","code":code}));
        }
        for df in [5u8, 21] {
            n4 += 1;
            if let Some((c, w)) = check_squawk_frame(df, code) {
                rep.violation(&c, w, json!({"kind":"idframe","df":df,"code":code}));
            }
            for hdr in &hdrs {
                n4 += 1;
                if let Some((c, w)) = check_squawk_frame_hdr(df, code, *hdr) {
                    rep.violation(&format!("{c}:header"), format!("{w} (header bits {hdr:#06x})"), json!({"kind":"idframe","df":df,"code":code,"hdr":hdr}));
                }
            }
        }
    }
    let mut images = std::collections::BTreeSet::new();
    for b in 0..13 {
        let v = decode_id13(1 << b);
        if v != 0 {
            if v.count_ones() != 1 || !images.insert(v) {
                rep.violation("id13:not-a-permutation", format!("bit {b} maps to {v:04x}"), json!({"kind":"id","code":1u16<<b}));
            }
        }
    }
    if images.len() != 12 {
        rep.violation("id13:not-a-permutation", format!("{} distinct one-hot images, expected 12", images.len()), json!({"kind":"id","code":0x1fff}));
    }
    for a in 0..8192u16 {
        // f(a|b) = f(a)|f(b) for every a against every single bit b: implies linearity
        for b in 0..13 {
            let bb = 1u16 << b;
            if decode_id13(a | bb) != decode_id13(a) | decode_id13(bb) {
                rep.violation("id13:not-linear", format!("decode_id13({:#06x}) != decode_id13({a:#06x}) | decode_id13({bb:#06x})", a | bb), json!({"kind":"id","code":a|bb}));
            }
        }
    }
    n4 += 8192 * 13;
    rep.eval(n4);
    rep.nontriv(8192);
    outs.insert("id13:distinct-squawks".into(), (0..8192u16).map(decode_id13).collect::<std::collections::BTreeSet<_>>().len() as u64);
    rep.part("id13:all-8192-codes(+DF5,DF21 frames, linearity)", n4, json!({}));
    rep.merge_outcomes(&outs);
    let ev = rep.evaluations.load(std::sync::atomic::Ordering::Relaxed);
    rep.state(8192 * 4 + 4096 * 4 + 65536 + 8192);
    rep.trans(ev);
    rep.sample(json!({"kind":"ac13","df":4,"code":0x0104,"standard_ft":r.ac13(0x0104).unwrap()}));
    rep.sample(json!({"kind":"ac12","tc":11,"code":0xc38,"frame":hexs(&frame_with_ac12(11,0xc38))}));
    rep.sample(json!({"kind":"gray","code":0x0040,"standard_ft":r.by_nibble.get(&0x0040)}));
    rep.sample(json!({"kind":"id","code":0x1fff,"squawk":format!("{:04x}", ref_id13(0x1fff))}));
    rep.set_bound("complete: all 2^13 AC codes (DF4/0/16/20), all 2^12 ME altitude codes (TC 11/9/18/20), all 2^16 gray2alt arguments, all 2^13 identity codes (function and DF5/DF21 frames); quick = thorough");
    rep.assume("metric (M=1) AC codes are outside the property's two encodings: decoded for totality, value not judged");
    rep.assume("altitudes < 0 ft or > 65535 ft cannot be held by the u16 result: they may be reported unavailable (0/None) but not as another value; 0 ft is 0 in the u16 of the 13-bit reader and must be Some(0) in the Option of the 12-bit reader");
}

pub fn replay(w: &Value, rep: &Report) {
    let r = RefAlt::new();
    let code = w["code"].as_u64().unwrap_or(0) as u16;
    let res = match w["kind"].as_str() {
        Some("ac13-after") => {
            let _ = decode(&frame_with_ac(4, !code & 0x1fbf));
            let _ = decode(&unhex(w["after"].as_str().unwrap_or("")));
            check_ac13(&r, w["df"].as_u64().unwrap() as u8, code).map(|(c, t)| (format!("sequence:{c}"), t))
        }
        Some("ac12-after") => {
            let _ = decode(&frame_with_ac12(11, !code & 0xfff));
            let _ = decode(&unhex(w["after"].as_str().unwrap_or("")));
            check_ac12(&r, w["tc"].as_u64().unwrap() as u8, code).map(|(c, t)| (format!("sequence:{c}"), t))
        }
        Some("ac13") => check_ac13_hdr(&r, w["df"].as_u64().unwrap() as u8, code, w["hdr"].as_u64().unwrap_or(0) as u16),
        Some("ac12") => check_ac12(&r, w["tc"].as_u64().unwrap() as u8, code),
        Some("gray") => check_gray(&r, code),
        Some("id") => check_id(code),
        Some("idframe") => check_squawk_frame_hdr(w["df"].as_u64().unwrap() as u8, code, w["hdr"].as_u64().unwrap_or(0) as u16),
        Some("gray-pair") => {
            let (a, b) = (w["a"].as_u64().unwrap() as u16, w["b"].as_u64().unwrap() as u16);
            match (gray2alt(a), gray2alt(b)) {
                (Ok(x), Ok(y)) if x == y => Some(("gray2alt:not-injective".into(), format!("both {x}"))),
                (Ok(x), Ok(y)) if (x - y).abs() == 1 && (a ^ b).count_ones() != 1 => Some(("gray2alt:not-gray".into(), format!("steps {x},{y}"))),
                (Ok(x), Ok(y)) if (x - y).abs() > 1 => Some(("gray2alt:gap".into(), format!("steps {x},{y}"))),
                _ => None,
            }
        }
        _ => panic!("bad witness"),
    };
    if let Some((c, what)) = res {
        rep.violation(&c, what, w.clone());
    }
}

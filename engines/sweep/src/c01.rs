//! C01 — decoding is total: the shared frame space (fspace.rs) plus the length
//! law, with the oracle "no panic, accepted => prescribed length, rendering
//! does not panic, decoding twice gives equal results".

use crate::common::*;
use crate::frames::*;
use crate::fspace::{self, Decoded, RegOut, Visitor};
use rs1090::decode::Message;
use rs1090::prelude::DekuContainerRead;
use serde_json::{json, Value};
use std::collections::BTreeMap;
use std::sync::Mutex;

pub struct V<'a> {
    pub rep: &'a Report,
    pub outcomes: Mutex<BTreeMap<String, u64>>,
}

fn df_of(bytes: &[u8]) -> u8 {
    bytes.first().map(|b| b >> 3).unwrap_or(0)
}

fn expected_len(bytes: &[u8]) -> usize {
    if bytes.first().map(|b| b & 0x80 != 0).unwrap_or(false) {
        14
    } else {
        7
    }
}

/// The C01 oracle on one input of any length.
pub fn judge_bytes(rep: &Report, group: &str, bytes: &[u8], r: &Decoded) -> &'static str {
    let wit = json!({"frame": hexs(bytes), "group": group});
    match r {
        Err(p) => {
            rep.violation(&format!("panic:decode:{}:{}", last_panic_file(), panic_class(p)), format!("Message::try_from panicked at {} on {}: {p}", last_panic_loc(), hexs(bytes)), wit);
            "panic"
        }
        Ok(Err(_)) => "rejected",
        Ok(Ok(msg)) => {
            if bytes.len() != expected_len(bytes) {
                rep.violation(&format!("length:accepted-{}-bytes:DF{}", bytes.len(), df_of(bytes)), format!("a {}-byte input with DF {} was accepted", bytes.len(), df_of(bytes)), wit.clone());
            }
            for (what, f) in [("display", 0), ("display-alt", 1), ("debug", 2)] {
                let r = guarded(|| match f {
                    0 => format!("{msg}"),
                    1 => format!("{msg:#}"),
                    _ => format!("{msg:?}"),
                });
                if let Err(p) = r {
                    rep.violation(&format!("panic:{what}:{}:{}", last_panic_file(), panic_class(&p)), format!("rendering ({what}) panicked at {} on {}: {p}", last_panic_loc(), hexs(bytes)), wit.clone());
                }
            }
            match fspace::decode(bytes) {
                Ok(Ok(again)) if again == *msg => {}
                other => {
                    rep.violation("nondeterministic", format!("decoding {} twice gave different results: {:?}", hexs(bytes), other.map(|x| x.is_ok())), wit.clone());
                }
            }
            // from_bytes: same message, exactly the prescribed number of bytes consumed
            // (on the groups that vary the header; the payload sweeps share those headers)
            if group.starts_with("DF1") || group.starts_with("commb:window") || group.starts_with("velocity") || group == "surface" || group.starts_with("bds6") || group.starts_with("airborne") || group.starts_with("identification") {
                return "accepted";
            }
            match guarded(|| Message::from_bytes((bytes, 0)).map(|((rest, bit), m)| (rest.len(), bit, m)).map_err(|e| e.to_string())) {
                Err(p) => rep.violation(&format!("panic:from_bytes:{}", panic_class(&p)), format!("Message::from_bytes panicked on {}: {p}", hexs(bytes)), wit),
                Ok(Err(e)) => rep.violation("from_bytes:disagrees", format!("try_from accepts {} but from_bytes rejects it: {e}", hexs(bytes)), wit),
                Ok(Ok((rest, bit, m))) => {
                    if rest != 0 || bit != 0 || m != *msg {
                        rep.violation("from_bytes:disagrees", format!("from_bytes on {}: {rest} bytes / {bit} bits left, same message: {}", hexs(bytes), m == *msg), wit);
                    }
                }
            }
            "accepted"
        }
    }
}

impl Visitor for V<'_> {
    fn frame(&self, group: &str, bytes: &[u8], r: &Decoded) {
        let o = judge_bytes(self.rep, group, bytes, r);
        if o != "rejected" || group == "dispatch" {
            // cheap histogram: only lock for the rarer outcomes and the small dispatch group
        }
        let _ = o;
    }
    fn register(&self, name: &str, mb: &[u8; 7], r: &RegOut) {
        if let Err(p) = r {
            self.rep.violation(
                &format!("panic:register:{name}:{}:{}", last_panic_file(), panic_class(p)),
                format!("{name} reader panicked at {} on {}: {p}", last_panic_loc(), hexs(mb)),
                json!({"register": name, "mb": hexs(mb)}),
            );
        }
    }
}

pub fn run(ctx: &Ctx, rep: &Report) {
    rep.set_rule("length law (every length 0..=32 x first byte x fill), all 2^16 leading byte pairs, every field group of every DF / type code / register through all its values in windows on fixed backgrounds; non-trivial = inputs the decoder accepts");
    rep.assume("field readers interact only through the contexts swept jointly (type code -> layout, status -> value, roll -> track rate, ground speed -> TAS, IAS -> Mach, wind speed -> direction, AC -> BDS 0,5 acceptance); simultaneous extremes of three or more unrelated fields are outside the bound");
    let v = V { rep, outcomes: Mutex::new(BTreeMap::new()) };
    // (a) length law
    let valid = df17(5, 0x4840d6, &me_bds08(4, 0, &cs_codes("KLM1023")), 0);
    let mut n = 0u64;
    let mut acc = 0u64;
    for len in 0..=32usize {
        for b0 in 0..=255u8 {
            for fill in 0..4 {
                let mut f: Vec<u8> = match fill {
                    0 => vec![0x00; len],
                    1 => vec![0xff; len],
                    2 => vec![0xa5; len],
                    _ => (0..len).map(|i| valid[i % 14]).collect(),
                };
                if fill < 3 || b0 != valid[0] {
                    if let Some(x) = f.first_mut() {
                        *x = b0;
                    }
                }
                // AP formats accept any parity: make DF17/18 pass their gate too
                if len == 14 && fill < 3 && (b0 >> 3 == 17) {
                    seal(&mut f, 0);
                }
                let r = fspace::decode(&f);
                n += 1;
                let o = judge_bytes(rep, "length", &f, &r);
                if o == "accepted" {
                    acc += 1;
                }
                *v.outcomes.lock().unwrap().entry(format!("length {}: {o}", if len == 7 || len == 14 { "7/14" } else { "other" })).or_insert(0) += 1;
                // from_bytes on longer input must consume exactly the frame, on shorter input fail
                if let Err(p) = guarded(|| Message::from_bytes((&f, 0)).map(|((rest, _), _)| rest.len()).map_err(|e| e.to_string())).map(|r| {
                    if let Ok(rest) = r {
                        let want = expected_len(&f);
                        if f.len() < want || rest != f.len() - want {
                            rep.violation("from_bytes:length", format!("from_bytes on a {}-byte input with DF {} left {rest} bytes", f.len(), df_of(&f)), json!({"frame": hexs(&f), "group": "length"}));
                        }
                    }
                }) {
                    rep.violation(&format!("panic:from_bytes:{}", panic_class(&p)), format!("Message::from_bytes panicked on {}: {p}", hexs(&f)), json!({"frame": hexs(&f), "group": "length"}));
                }
            }
        }
    }
    // a complete valid frame followed by padding / followed by another frame / cut short: only the exact length is a message
    {
        let shorts: Vec<Vec<u8>> = vec![
            df11(5, 0x4840d6, 0),
            df11(5, 0x4840d6, 5),
            df4_5(4, 0, 0, 0, ac13_q(35000), 0x4840d6),
            df4_5(5, 0, 0, 0, id13(1, 2, 3, 4), 0x4840d6),
            df0(0, 0, 3, 3, ac13_q(12000), 0x4840d6),
        ];
        let longs: Vec<Vec<u8>> = vec![
            valid.clone(),
            df18(2, 0x4840d6, &me_bds05(11, 0, 0, ac12_q(35000), 0, 0, 93000, 51372), 0),
            df16(0, 3, 3, ac13_q(12000), &[0x30, 0, 0, 0, 0, 0, 0], 0x4840d6),
            df20_21(20, 0, 0, 0, ac13_q(35000), &fspace::exemplar("bds50"), 0x4840d6),
            df20_21(21, 0, 0, 0, id13(1, 2, 3, 4), &fspace::exemplar("bds60"), 0x4840d6),
            df24(0, 1, &[7u8; 10], 0x4840d6),
        ];
        let mut m = 0u64;
        for base in shorts.iter().chain(longs.iter()) {
            for len in 0..=32usize {
                for pad in 0..4 {
                    let mut f: Vec<u8> = base.iter().cloned().take(len).collect();
                    while f.len() < len {
                        let i = f.len();
                        f.push(match pad {
                            0 => 0x00,
                            1 => 0xff,
                            2 => base[i % base.len()],
                            _ => longs[0][i % 14],
                        });
                    }
                    let r = fspace::decode(&f);
                    m += 1;
                    if judge_bytes(rep, "length:embedded", &f, &r) == "accepted" {
                        acc += 1;
                    }
                }
            }
        }
        // inputs made of one repeated byte value (every value x every length), and the usual TEXT forms of the valid
        // frames (hex digits in both cases, AVR "*...;" / "@<timestamp>...;", with a line end): a byte string is a
        // message only as raw bytes of the prescribed length
        for b in 0..=255u8 {
            for len in 0..=32usize {
                let f = vec![b; len];
                let r = fspace::decode(&f);
                m += 1;
                if judge_bytes(rep, "length:repeated-byte", &f, &r) == "accepted" {
                    acc += 1;
                }
            }
        }
        for base in shorts.iter().chain(longs.iter()) {
            let hex = hexs(base);
            let forms: Vec<String> = vec![
                hex.clone(),
                hex.to_uppercase(),
                format!("*{hex};"),
                format!("*{};", hex.to_uppercase()),
                format!("@0123456789ab{hex};"),
                format!("{hex}\n"),
                format!("{hex}\r\n"),
                format!("0x{hex}"),
                format!(" {hex}"),
            ];
            for t in forms {
                let f = t.into_bytes();
                let r = fspace::decode(&f);
                m += 1;
                if judge_bytes(rep, "length:text-form", &f, &r) == "accepted" {
                    acc += 1;
                }
            }
        }
        n += m;
        rep.part("length law: valid frames padded, concatenated and cut short; repeated bytes; text forms", m, json!({}));
    }
    rep.part("length law", n, json!({"accepted": acc}));
    // (a') order independence: a result must not depend on which frames were decoded before it
    // (hidden state between calls): a fixed list is decoded forwards, backwards and interleaved with
    // unrelated frames, on one thread; the rendered results must be identical per frame
    {
        let mut list: Vec<Vec<u8>> = Vec::new();
        for hdr in (0..65536u32).step_by(5) {
            for (len, fill) in [(7usize, 0x00u8), (14, 0xa5)] {
                let mut f = vec![fill; len];
                f[0] = (hdr >> 8) as u8;
                f[1] = hdr as u8;
                if f[0] >> 3 == 17 {
                    seal(&mut f, 0);
                }
                list.push(f);
            }
        }
        for name in fspace::REGISTERS {
            for df in [20u8, 21] {
                list.push(df20_21(df, 0, 0, 0, ac13_q(35000), &fspace::exemplar(name), 0x4840d6));
            }
        }
        let render = |f: &Vec<u8>| -> String {
            match fspace::decode(f) {
                Ok(Ok(m)) => format!("{m:?}"),
                Ok(Err(e)) => format!("Err({e})"),
                Err(p) => format!("panic({p})"),
            }
        };
        let fwd: Vec<String> = list.iter().map(render).collect();
        let mut bwd: Vec<String> = list.iter().rev().map(render).collect();
        bwd.reverse();
        let noise = [df17(5, 0xabcdef, &me_bds09_gs(1, 0, 0, 0, 1, 500, 1, 400, 1, 1, 300, 1, 100), 0), df4_5(5, 3, 1, 2, id13(7, 7, 0, 0), 0x123456), df11(7, 0xffffff, 9)];
        let mixed: Vec<String> = list.iter().enumerate().map(|(i, f)| {
            let _ = render(&noise[i % 3].to_vec());
            render(f)
        }).collect();
        let mut diff = 0u64;
        for (i, f) in list.iter().enumerate() {
            if fwd[i] != bwd[i] || fwd[i] != mixed[i] {
                diff += 1;
                rep.violation("order-dependent", format!("decoding {} gives a different result depending on which frames were decoded before it", hexs(f)), json!({"frame": hexs(f), "group": "order"}));
            }
        }
        n += 3 * list.len() as u64;
        rep.part("order independence", 3 * list.len() as u64, json!({"frames": list.len(), "different": diff}));
    }
    // (a'') sequences of two decodes over related inputs: a frame and each of its single-bit neighbours, in
    // both orders; the second result must equal what a fresh thread (fresh thread-local state) gives for it
    {
        let bases: Vec<Vec<u8>> = fspace::sequence_bases();
        let render = |f: &[u8]| -> String {
            match fspace::decode(f) {
                Ok(Ok(m)) => format!("{m:?}"),
                Ok(Err(e)) => format!("Err({e})"),
                Err(p) => format!("panic({p})"),
            }
        };
        let fresh = |f: &Vec<u8>| -> String {
            let g = f.clone();
            std::thread::spawn(move || match fspace::decode(&g) {
                Ok(Ok(m)) => format!("{m:?}"),
                Ok(Err(e)) => format!("Err({e})"),
                Err(p) => format!("panic({p})"),
            })
            .join()
            .unwrap_or_else(|_| "thread panicked".to_string())
        };
        let pairs = std::sync::atomic::AtomicU64::new(0);
        par_items(ctx.threads, bases.len(), |bi| {
            let a = &bases[bi];
            let ref_a = fresh(a);
            let es = a[0] >> 3 == 17 || a[0] >> 3 == 18;
            for bit in 0..a.len() * 8 {
                let mut b = a.clone();
                b[bit / 8] ^= 0x80 >> (bit % 8);
                if es && bit < 88 {
                    seal(&mut b, 0); // keep extended squitters acceptable
                }
                let ref_b = fresh(&b);
                // a then b
                let _ = render(a);
                let got_b = render(&b);
                // b then a
                let _ = render(&b);
                let got_a = render(a);
                pairs.fetch_add(2, std::sync::atomic::Ordering::Relaxed);
                for (f, got, want, before) in [(&b, &got_b, &ref_b, a), (a, &got_a, &ref_a, &b)] {
                    if got != want {
                        rep.violation("order-dependent", format!("decoding {} right after {} gives a different result than decoding it first", hexs(f), hexs(before)), json!({"frame": hexs(f), "after": hexs(before), "group": "sequence"}));
                    }
                }
            }
        });
        // every ordered pair of base frames (same payload on another carrier, another address, another register ...)
        let mut all: Vec<Vec<u8>> = bases.clone();
        for b in &bases {
            // the same frame from another address (AP formats: re-overlaid; squitters: AA changed and re-sealed)
            let mut o = b.clone();
            let df = o[0] >> 3;
            if df == 17 || df == 18 || df == 11 {
                o[1] ^= 0x80;
                o[3] ^= 0x01;
                let l = o.len();
                o[l - 3] = 0;
                o[l - 2] = 0;
                o[l - 1] = 0;
                seal(&mut o, 0);
            } else {
                let l = o.len();
                o[l - 1] ^= 0x01;
                o[l - 3] ^= 0x80;
            }
            all.push(o);
        }
        let refs: Vec<String> = all.iter().map(&fresh).collect();
        let np = std::sync::atomic::AtomicU64::new(0);
        par_items(ctx.threads, all.len(), |i| {
            for j in 0..all.len() {
                let _ = render(&all[i]);
                let got = render(&all[j]);
                np.fetch_add(1, std::sync::atomic::Ordering::Relaxed);
                if got != refs[j] {
                    rep.violation("order-dependent", format!("decoding {} right after {} gives a different result than decoding it first", hexs(&all[j]), hexs(&all[i])), json!({"frame": hexs(&all[j]), "after": hexs(&all[i]), "group": "sequence"}));
                }
            }
        });
        let p = pairs.load(std::sync::atomic::Ordering::Relaxed) + np.load(std::sync::atomic::Ordering::Relaxed);
        n += 3 * p;
        rep.part("two-decode sequences over single-bit neighbours and all pairs of base frames", p, json!({"base_frames": all.len()}));
    }
    let c = fspace::sweep(ctx, rep, &v, true);
    let frames = c.frames.load(std::sync::atomic::Ordering::Relaxed);
    let accepted = c.accepted.load(std::sync::atomic::Ordering::Relaxed);
    let regs = c.reg_calls.load(std::sync::atomic::Ordering::Relaxed);
    let regacc = c.reg_accepted.load(std::sync::atomic::Ordering::Relaxed);
    rep.merge_outcomes(&v.outcomes.lock().unwrap());
    rep.outcome("frame accepted", accepted);
    rep.outcome("frame rejected", frames - accepted);
    rep.outcome("register accepted", regacc);
    rep.outcome("register rejected", regs - regacc);
    rep.sample(json!({"frame": hexs(&valid), "rendered": format!("{}", Message::try_from(valid.as_slice()).unwrap())}));
    rep.sample(json!({"frame": hexs(&df20_21(20, 0, 0, 0, ac13_q(35000), &fspace::exemplar("bds50"), 0x4840d6))}));
    rep.eval(n + frames + regs);
    rep.trans(n + frames + regs);
    rep.state(n + frames + regs);
    rep.nontriv(acc + accepted + regacc);
    let p = fspace::plan(ctx);
    rep.set_bound(&format!("lengths 0..=32 x 256 x 4; 2^16 byte pairs x 2 lengths x 3 fills; 6 AP formats x (2^14 headers x 4 + 2^13 codes x 4); DF17: 256 first ME bytes x {}-bit windows at stride 4 x 2 backgrounds, DF18 (cf {:?}) with {}-bit windows; 14 registers x {}-bit windows x 3 backgrounds + joint domains (step {}); complete per-field sweeps", p.w, p.cfs, p.w18, p.wreg, p.joint_step));
    if !ctx.thorough() {
        rep.not_exhaustive("quick tier: 8-bit windows (12-bit for registers), one DF18 control field with windows, joint grids at step 8");
    }
}

pub fn replay(w: &Value, rep: &Report) {
    if let Some(name) = w.get("register").and_then(|x| x.as_str()) {
        let v = unhex(w["mb"].as_str().unwrap_or(""));
        let mut mb = [0u8; 7];
        mb.copy_from_slice(&v[..7]);
        let r = fspace::call_register(name, &mb);
        V { rep, outcomes: Mutex::new(BTreeMap::new()) }.register(name, &mb, &r);
    } else if let Some(before) = w.get("after").and_then(|x| x.as_str()) {
        let (a, f) = (unhex(before), unhex(w["frame"].as_str().unwrap_or("")));
        let g = f.clone();
        let want = std::thread::spawn(move || format!("{:?}", fspace::decode(&g))).join().unwrap_or_default();
        let _ = fspace::decode(&a);
        let got = format!("{:?}", fspace::decode(&f));
        if got != want {
            rep.violation("order-dependent", format!("decoding {} right after {} gives a different result than decoding it first", hexs(&f), hexs(&a)), w.clone());
        }
    } else {
        let f = unhex(w["frame"].as_str().unwrap_or(""));
        let r = fspace::decode(&f);
        judge_bytes(rep, w["group"].as_str().unwrap_or("replay"), &f, &r);
    }
    rep.trans(1);
    rep.state(1);
    rep.sample(w.clone());
    rep.outcome("replayed", 1);
}

//! C18 — GPS time-of-week → UTC time-of-day, start of GPS week.
//! Enumerates every nanosecond of the first 18.001 s, ±window around each
//! day boundary and the week end, the whole week on a 1 ms grid, and every
//! Unix second from the GPS epoch to 2100; oracle in i128.

use crate::common::*;
use rs1090::decode::time::{gps_week_in_s, since_gps_week_to_since_today};
use serde_json::{json, Value};
use std::collections::BTreeMap;

const DAY_NS: i128 = 86_400_000_000_000;
const WEEK_NS: u64 = 604_800_000_000_000;
const LEAP_NS: i128 = 18_000_000_000;
const GPS_EPOCH: u64 = 315_964_800;
const WEEK_S: i128 = 604_800;

fn check_tow(t: u64) -> Option<(String, String)> {
    let want = (t as i128 - LEAP_NS).rem_euclid(DAY_NS);
    set_case(18, t as u64, 1, 0);
    match guarded(|| since_gps_week_to_since_today(t)) {
        Err(p) => Some(("tow:panic".into(), format!("since_gps_week_to_since_today({t}) panicked: {p}"))),
        Ok(got) => {
            if got as i128 != want {
                let class = if (got as i128) >= DAY_NS { "tow:out-of-day" } else { "tow:value" };
                Some((class.into(), format!("since_gps_week_to_since_today({t}) = {got}, expected {want}")))
            } else {
                None
            }
        }
    }
}

fn check_week(now: u64) -> Option<(String, String)> {
    set_case(18, now as u64, 2, 0);
    match guarded(|| gps_week_in_s(now)) {
        Err(p) => Some(("week:panic".into(), format!("gps_week_in_s({now}) panicked: {p}"))),
        Ok(w) => {
            let (w, n) = (w as i128, now as i128);
            if !(n - WEEK_S < w && w <= n) {
                return Some(("week:range".into(), format!("gps_week_in_s({now}) = {w} is not within one week before the argument")));
            }
            if (w - GPS_EPOCH as i128 + 18).rem_euclid(WEEK_S) != 0 {
                return Some(("week:boundary".into(), format!("gps_week_in_s({now}) = {w} is not on a GPS week boundary")));
            }
            None
        }
    }
}

fn sweep_tow<I: Fn(u64) -> u64 + Sync>(ctx: &Ctx, rep: &Report, n: u64, at: I, name: &str) {
    let outs = std::sync::Mutex::new(BTreeMap::<String, u64>::new());
    par_ranges(ctx.threads, n, 1 << 22, |lo, hi| {
        let mut wraps = 0u64; // results that needed the modulo (non-trivial cases)
        let mut local_bad = 0u64;
        for i in lo..hi {
            let t = at(i);
            if let Some((c, w)) = check_tow(t) {
                local_bad += 1;
                rep.violation(&c, w, json!({"kind":"tow","t":t}));
                if local_bad > 64 {
                    break;
                }
            }
            if (t as i128) < LEAP_NS || (t as i128 - LEAP_NS) >= DAY_NS {
                wraps += 1;
            }
        }
        rep.eval(hi - lo);
        rep.nontriv(wraps);
        let mut o = outs.lock().unwrap();
        *o.entry("needs-wrap".into()).or_insert(0) += wraps;
        *o.entry("same-day".into()).or_insert(0) += (hi - lo) - wraps;
    });
    rep.merge_outcomes(&outs.lock().unwrap());
    rep.part(name, n, json!({}));
}

pub fn run(ctx: &Ctx, rep: &Report) {
    rep.set_rule("since_gps_week_to_since_today: every listed t called on the real function and compared with (t-18e9) mod 86400e9 in i128; non-trivial = t for which the subtraction borrows or the modulo reduces. gps_week_in_s: every listed Unix second; result checked against the week-boundary congruence and the one-week window");
    let thorough = ctx.thorough();
    // (a) first 18.001 s: every ns, both tiers
    sweep_tow(ctx, rep, 18_001_000_000, |i| i, "tow:first-18.001s-every-ns");
    // (b) every ns of a window around 18 s + k days and around k days (incl. the week end)
    let win: u64 = if thorough { 1_000_000_000 } else { 1_000_000 };
    for k in 0..8u64 {
        let centre = 18_000_000_000 + k * DAY_NS as u64;
        if centre > WEEK_NS + win {
            continue;
        }
        sweep_tow(ctx, rep, 2 * win + 1, |i| (centre - win + i).min(WEEK_NS + win), &format!("tow:day-boundary-{k}"));
    }
    for k in 1..8u64 {
        let centre = k * DAY_NS as u64;
        sweep_tow(ctx, rep, 2 * win + 1, |i| centre - win + i, &format!("tow:gps-midnight-{k}"));
    }
    // (c) whole week on a grid: 10 us (thorough) / 1 ms (quick), at three ns offsets
    if thorough {
        for off in [0u64, 1, 9_999] {
            sweep_tow(ctx, rep, 60_480_000_000, |i| i * 10_000 + off, &format!("tow:week-10us-grid+{off}"));
        }
    } else {
        for off in [0u64, 1, 999_999] {
            sweep_tow(ctx, rep, 604_800_000, |i| i * 1_000_000 + off, &format!("tow:week-1ms-grid+{off}"));
        }
    }
    // (c') since_gps_week_to_unix_s (what the SeRo receiver stamps its receptions with): the Unix time of a GPS time of
    // week in the CURRENT week. It reads the clock, so it can be explored at this moment only: for every t of a grid over
    // the week the result minus t must be one week start that satisfies the week clause for a "now" between the clock
    // readings taken before and after the call.
    {
        use rs1090::decode::time::since_gps_week_to_unix_s;
        let unix_now = || std::time::SystemTime::now().duration_since(std::time::UNIX_EPOCH).map(|d| d.as_secs()).unwrap_or(0);
        let mut n = 0u64;
        let step = if thorough { 1_000_003u64 } else { 97_000_007 };
        let mut t = 0u64;
        while t < 604_800_000_000_000 {
            for tt in [t, t + 17_999_999_999, t + 18_000_000_000] {
                if tt >= 604_800_000_000_000 {
                    continue;
                }
                n += 1;
                let before = unix_now();
                let got = guarded(|| since_gps_week_to_unix_s(tt));
                let after = unix_now();
                match got {
                    Err(p) => rep.violation("unix:panic", format!("since_gps_week_to_unix_s({tt}) panicked: {p}"), json!({"kind":"unix","t":tt})),
                    Ok(v) => {
                        let w = v - tt as f64 * 1e-9;
                        let wr = w.round();
                        let ok_boundary = (w - wr).abs() < 1e-3 && ((wr as i128 - GPS_EPOCH as i128 + 18).rem_euclid(604_800)) == 0;
                        let ok_range = wr as i128 <= after as i128 && (before as i128 - wr as i128) < 604_800 + 1;
                        if !v.is_finite() || !ok_boundary || !ok_range {
                            rep.violation("unix:value", format!("since_gps_week_to_unix_s({tt}) = {v} at Unix time {before}: minus the argument this is {w}, which is not the start of the current GPS week"), json!({"kind":"unix","t":tt}));
                        }
                    }
                }
            }
            t += step;
        }
        rep.eval(n);
        rep.part("unix: time of week -> Unix time at the present moment", n, json!({}));
    }
    // (d) gps_week_in_s
    let end: u64 = 4_102_444_800; // 2100-01-01
    let weeks = std::sync::Mutex::new(std::collections::BTreeSet::<u64>::new());
    let scan = |n: u64, at: &(dyn Fn(u64) -> u64 + Sync), name: &str| {
        par_ranges(ctx.threads, n, 1 << 22, |lo, hi| {
            let mut seen = std::collections::BTreeSet::new();
            let mut local_bad = 0;
            for i in lo..hi {
                let now = at(i);
                if let Some((c, w)) = check_week(now) {
                    local_bad += 1;
                    rep.violation(&c, w, json!({"kind":"week","now":now}));
                    if local_bad > 64 {
                        break;
                    }
                } else if let Ok(w) = guarded(|| gps_week_in_s(now)) {
                    seen.insert(w);
                }
            }
            rep.eval(hi - lo);
            weeks.lock().unwrap().extend(seen);
        });
        rep.part(name, n, json!({}));
    };
    if thorough {
        scan(end - GPS_EPOCH, &|i| GPS_EPOCH + i, "week:every-second-1980..2100");
    } else {
        scan((end - GPS_EPOCH) / 7, &|i| GPS_EPOCH + i * 7, "week:7s-stride-1980..2100");
        let nweeks = (end - GPS_EPOCH) / 604_800 + 1;
        scan(nweeks * 41, &|i| (GPS_EPOCH - 18 + (i / 41) * 604_800 + (i % 41)).saturating_sub(20).max(GPS_EPOCH), "week:±20s-around-every-boundary");
    }
    // beyond 2100: +-20 s around every week boundary up to the year 9999, and around the powers of two
    // where a narrower integer type would wrap (2^31, 2^32, 2^33, 2^36)
    {
        let far: u64 = 253_402_300_800; // 10000-01-01
        let first = (end - GPS_EPOCH) / 604_800;
        let nweeks = (far - GPS_EPOCH) / 604_800 - first;
        scan(nweeks * 41, &|i| GPS_EPOCH - 18 + (first + i / 41) * 604_800 + (i % 41) - 20, "week:+-20s-around-every-boundary-2100..9999");
        for p in [31u32, 32, 33, 36] {
            let c = 1u64 << p;
            scan(2_000_001, &move |i| c - 1_000_000 + i, "week:+-1e6s-around-2^k");
        }
    }
    // call sequences (the conversions are called once per reception of a feed: whatever they remember between calls
    // - the current day, the current week - is hidden state): every sequence of up to 4 (thorough 5) calls over an
    // alphabet of instants on either side of every constant (0, 18 s, the day and week boundaries), each sequence on
    // a fresh thread, every call held to the arithmetic oracle
    {
        let s = 1_000_000_000u64;
        let d = 86_400 * s;
        let tow: Vec<u64> = vec![0, 5 * s, 18 * s - 1, 18 * s, 20 * s + 1234, d - 1, d + 17 * s, d + 18 * s, 3 * d + 40_000 * s, 6 * d + 17 * s, 6 * d + 18 * s, 6 * d + 19 * s, 7 * d - 110 * s, 7 * d - 1];
        // dimension runs (debug assertions, logging) repeat the sequences one call shorter
        let len = if thorough { 5 } else if ctx.dim.is_empty() || ctx.dim == "plain" { 4 } else { 3 };
        let k = tow.len();
        let nseq = (k as u64).pow(len as u32);
        let cnt = std::sync::atomic::AtomicU64::new(0);
        par_ranges(ctx.threads, nseq, 64, |lo, hi| {
            let mut c = 0u64;
            for code in lo..hi {
                let seq: Vec<u64> = (0..len).map(|i| tow[((code / (k as u64).pow(i as u32)) % k as u64) as usize]).collect();
                let bad = std::thread::scope(|sc| {
                    sc.spawn(|| {
                        for (i, t) in seq.iter().enumerate() {
                            if let Some((cl, what)) = check_tow(*t) {
                                return Some((cl, what, i));
                            }
                        }
                        None
                    })
                    .join()
                    .unwrap_or(None)
                });
                c += len as u64;
                if let Some((cl, what, i)) = bad {
                    rep.violation(&format!("sequence:{cl}"), format!("call {i} of the sequence {seq:?}: {what}"), json!({"kind": "tow-sequence", "sequence": seq}));
                }
                if stopped() {
                    break;
                }
            }
            cnt.fetch_add(c, std::sync::atomic::Ordering::Relaxed);
            rep.eval(c);
        });
        rep.part("tow: every call sequence over instants on either side of every constant, each on a fresh thread", cnt.load(std::sync::atomic::Ordering::Relaxed), json!({"alphabet": k, "length": len, "sequences": nseq}));
        // the same for the week start: Unix times on either side of GPS week boundaries, inside one Unix week and
        // years apart
        let b = GPS_EPOCH - 18 + 2000 * 604_800;
        let now: Vec<u64> = vec![GPS_EPOCH, GPS_EPOCH + 17, b - 1, b, b + 1, b + 18, b - 604_800, b + 604_799, b + 302_400, b - 259_200, b + 345_600, 4_102_444_800];
        let k = now.len();
        let nseq = (k as u64).pow(len as u32);
        let cnt = std::sync::atomic::AtomicU64::new(0);
        par_ranges(ctx.threads, nseq, 64, |lo, hi| {
            let mut c = 0u64;
            for code in lo..hi {
                let seq: Vec<u64> = (0..len).map(|i| now[((code / (k as u64).pow(i as u32)) % k as u64) as usize]).collect();
                let bad = std::thread::scope(|sc| {
                    sc.spawn(|| {
                        for (i, t) in seq.iter().enumerate() {
                            if let Some((cl, what)) = check_week(*t) {
                                return Some((cl, what, i));
                            }
                        }
                        None
                    })
                    .join()
                    .unwrap_or(None)
                });
                c += len as u64;
                if let Some((cl, what, i)) = bad {
                    rep.violation(&format!("sequence:{cl}"), format!("call {i} of the sequence {seq:?}: {what}"), json!({"kind": "week-sequence", "sequence": seq}));
                }
                if stopped() {
                    break;
                }
            }
            cnt.fetch_add(c, std::sync::atomic::Ordering::Relaxed);
            rep.eval(c);
        });
        rep.part("week: every call sequence over Unix times on either side of week boundaries, each on a fresh thread", cnt.load(std::sync::atomic::Ordering::Relaxed), json!({"alphabet": k, "length": len, "sequences": nseq}));
    }
    let nw = weeks.lock().unwrap().len() as u64;
    rep.nontriv(nw);
    rep.outcome("distinct-week-starts", nw);
    rep.state(rep.evaluations.load(std::sync::atomic::Ordering::Relaxed));
    rep.trans(rep.evaluations.load(std::sync::atomic::Ordering::Relaxed));
    rep.sample(json!({"kind":"tow","t":0, "expected": (0i128 - LEAP_NS).rem_euclid(DAY_NS) as u64}));
    rep.sample(json!({"kind":"tow","t":18_000_000_000u64, "expected": 0}));
    rep.sample(json!({"kind":"tow","t":WEEK_NS - 1, "expected": ((WEEK_NS as i128 - 1 - LEAP_NS).rem_euclid(DAY_NS)) as u64}));
    rep.sample(json!({"kind":"week","now":1_700_000_000u64, "result": gps_week_in_s(1_700_000_000)}));
    rep.set_bound(if thorough {
        "every ns of [0,18.001 s); every ns within 1 s of 18 s + k days (k=0..6) and of k days (k=1..7); whole week on a 10 us grid at offsets 0, 1, 9999 ns; every Unix second 1980-01-06..2100-01-01"
    } else {
        "every ns of [0,18.001 s); every ns within 1 ms of every day boundary; whole week on a 1 ms grid at 3 offsets; Unix seconds on a 7 s stride plus 20 s around every GPS week boundary"
    });
    // the week has 6.05e14 ns: the listed sub-spaces are complete, the week is not
    rep.exhaustive.store(false, std::sync::atomic::Ordering::Relaxed);
    rep.note("complete_subspaces", json!(["every ns of [0, 18.001 s)", "every ns of each boundary window"]));
    rep.assume("the leap-second offset is the constant 18 s the property names (GPS-UTC since 2017)");
}

pub fn replay(w: &Value, rep: &Report) {
    match w["kind"].as_str() {
        Some("tow-sequence") | Some("week-sequence") => {
            let week = w["kind"].as_str() == Some("week-sequence");
            let seq: Vec<u64> = w["sequence"].as_array().map(|a| a.iter().filter_map(|x| x.as_u64()).collect()).unwrap_or_default();
            let bad = std::thread::scope(|sc| {
                sc.spawn(|| {
                    for (i, t) in seq.iter().enumerate() {
                        if let Some((cl, what)) = if week { check_week(*t) } else { check_tow(*t) } {
                            return Some((cl, what, i));
                        }
                    }
                    None
                })
                .join()
                .unwrap_or(None)
            });
            if let Some((cl, what, i)) = bad {
                rep.violation(&format!("sequence:{cl}"), format!("call {i} of the sequence {seq:?}: {what}"), w.clone());
            }
        }
        Some("tow") => {
            let t = w["t"].as_u64().unwrap();
            if let Some((c, what)) = check_tow(t) {
                rep.violation(&c, what, w.clone());
            }
        }
        Some("unix") => {
            // (depends on the clock by nature: evaluated again at the present moment)
            let tt = w["t"].as_u64().unwrap_or(0);
            let now = std::time::SystemTime::now().duration_since(std::time::UNIX_EPOCH).map(|d| d.as_secs()).unwrap_or(0);
            match guarded(|| rs1090::decode::time::since_gps_week_to_unix_s(tt)) {
                Err(p) => rep.violation("unix:panic", format!("since_gps_week_to_unix_s({tt}) panicked: {p}"), w.clone()),
                Ok(v) => {
                    let ws = (v - tt as f64 * 1e-9).round() as i128;
                    if (ws - GPS_EPOCH as i128 + 18).rem_euclid(604_800) != 0 || ws > now as i128 + 1 || now as i128 - ws > 604_801 {
                        rep.violation("unix:value", format!("since_gps_week_to_unix_s({tt}) = {v} at Unix time {now}"), w.clone());
                    }
                }
            }
        }
        Some("week") => {
            let now = w["now"].as_u64().unwrap();
            if let Some((c, what)) = check_week(now) {
                rep.violation(&c, what, w.clone());
            }
        }
        _ => panic!("bad witness"),
    }
}

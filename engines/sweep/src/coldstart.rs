//! Cold-start probe (NOT an exhaustive exploration: a sample of real schedules, labelled as such in the evidence).
//! In a fresh process, 16 threads are released together and each makes its *first* call of the subject; every
//! result is compared with the same call made again once all threads are done (and, where the harness has an
//! independent reference, with that). Lazily initialised tables, memos and "first thread through" publication
//! are exercised exactly at the moment they are built. bin/check starts this many times.

use crate::common::*;
use crate::frames::*;
use std::sync::{Arc, Barrier};

type Call = Box<dyn Fn() -> String + Send + Sync>;

fn decode_json(f: Vec<u8>) -> Call {
    Box::new(move || match rs1090::decode::Message::try_from(f.as_slice()) {
        Ok(m) => serde_json::to_string(&m).unwrap_or_else(|e| format!("json error {e}")),
        Err(e) => format!("Err({e})"),
    })
}

fn calls_for(id: &str) -> Vec<(String, Call, Option<String>)> {
    let mut v: Vec<(String, Call, Option<String>)> = Vec::new();
    match id {
        "C02" => {
            for i in 0..16u32 {
                let mut f = match i % 4 {
                    0 => df17(5, 0x406b90 + i, &me_bds08(4, 0, &cs_codes("EZY85MH")), 0),
                    1 => df11(5, 0x4840d6 + i, 0),
                    2 => df4_5(4, 0, 0, 0, ac13_q(35000), 0x4840d6 + i),
                    _ => df20_21(20, 0, 0, 0, ac13_q(35000), &[0x20, 0x2c, 0xc3, 0x71, 0xc3, 0x2c, 0xe0], 0xabcdef),
                };
                if i >= 8 {
                    f[5] ^= 0x10; // a corrupted frame: the remainder is the syndrome
                }
                let want = format!("{:06x}", ref_remainder(&f));
                let g = f.clone();
                v.push((format!("modes_checksum({})", hexs(&f)), Box::new(move || format!("{:06x}", rs1090::decode::crc::modes_checksum(&g, g.len() * 8).unwrap_or(0xffff_ffff))), Some(want)));
            }
        }
        "C01" | "C07" => {
            let addr = 0x4840d6;
            let frames: Vec<Vec<u8>> = vec![
                df17(5, addr, &me_bds08(4, 0, &cs_codes("KLM1023")), 0),
                df17(5, addr, &me_bds05(11, 0, 0, ac12_q(35000), 0, 0, 93000, 51372), 0),
                df17(5, addr, &me_bds06(7, 30, 1, 64, 0, 1, 1000, 2000), 0),
                df17(5, addr, &me_bds09_gs(1, 0, 0, 0, 0, 100, 1, 200, 0, 0, 10, 0, 5), 0),
                df18(2, addr, &me_bds05(11, 0, 0, ac12_q(35000), 0, 0, 93000, 51372), 0),
                df11(5, addr, 0),
                df4_5(4, 0, 0, 0, ac13_q(35000), addr),
                df4_5(5, 0, 0, 0, id13(1, 2, 3, 4), addr),
                df0(0, 0, 3, 3, ac13_q(12000), addr),
                df16(0, 3, 3, ac13_q(12000), &[0x30, 0, 0, 0, 0, 0, 0], addr),
                df20_21(20, 0, 0, 0, ac13_q(35000), &crate::fspace::exemplar("bds50"), addr),
                df20_21(21, 0, 0, 0, id13(1, 2, 3, 4), &crate::fspace::exemplar("bds60"), addr),
                df20_21(20, 0, 0, 0, ac13_q(35000), &crate::fspace::exemplar("bds40"), addr),
                df20_21(20, 0, 0, 0, ac13_q(35000), &crate::fspace::exemplar("bds20"), addr),
                df17(5, addr, &me_bds62(1, 0, 1000, 300, 1, 100, 9, 1, 3, 0xff), 0),
                df17(5, addr, &me_bds61(1, 1, 0x1234), 0),
            ];
            for f in frames {
                v.push((format!("decode({})", hexs(&f)), decode_json(f), None));
            }
        }
        "C13" => {
            for i in 0..16u16 {
                let code = 0x0155u16.wrapping_mul(i + 1) & 0x1fff;
                v.push((format!("gray2alt/decode_id13({code:#x})"), Box::new(move || format!("{:?} {:?}", rs1090::decode::gray2alt(code), rs1090::decode::decode_id13(code))), None));
            }
        }
        "C14" => {
            for a in [0xa00001u32, 0xa00002, 0xadf7c7, 0x3c6444, 0x4b1801, 0x71ba00, 0x840000, 0xc00001, 0x380000, 0x440000, 0x4d2000, 0xe40000, 0x7c0000, 0x000001, 0xffffff, 0x888888] {
                v.push((
                    format!("tail/aircraft_information({a:06x})"),
                    Box::new(move || format!("{:?} {:?}", rs1090::data::tail::tail(a), rs1090::data::patterns::aircraft_information(&format!("{a:06x}"), None).map(|i| format!("{i:?}")))),
                    None,
                ));
            }
        }
        "C15" => {
            for i in 0..64u32 {
                let f = crate::c15::Fields { addr: 0x38f27b ^ (i << 4) ^ ((i / 16) << 17), actype: 1 + (i % 13), alt: 100 + i, ..crate::c15::Fields::base() };
                let t = 1_655_274_034u32 + 64 * (i / 4);
                let pkt = f.packet(t);
                const TYPES: [&str; 16] = ["Unknown", "Glider", "Towplane", "Helicopter", "Parachute", "DropPlane", "Hangglider", "Paraglider", "Aircraft", "Jet", "UFO", "Balloon", "Airship", "UAV", "Reserved", "StaticObstacle"];
                let want = format!("{:06x} {} {}", f.addr, TYPES[f.actype as usize], f.alt);
                v.push((
                    format!("from_record({t}, {})", hexs(&pkt)),
                    Box::new(move || match rs1090::decode::flarm::Flarm::from_record(t, &[43.61924, 5.11755], &pkt) {
                        Ok(r) => format!("{} {:?} {}", r.icao24, r.actype, r.geoaltitude),
                        Err(e) => format!("Err({e})"),
                    }),
                    Some(want),
                ));
            }
        }
        "C18" => {
            for i in 0..16u64 {
                let t = i * 40_000_000_000_000 + 17_999_999_999;
                let now = 1_700_000_000i64 + i as i64 * 86_400 * 3;
                v.push((format!("gps({t},{now})"), Box::new(move || format!("{:?} {:?}", rs1090::decode::time::since_gps_week_to_since_today(t), rs1090::decode::time::gps_week_in_s(now as u64))), None));
            }
        }
        _ => {}
    }
    v
}

/// Returns the process exit code: 0 = all calls agree, 3 = a mismatch was printed, 2 = nothing to probe.
pub fn run(id: &str, threads: usize) -> i32 {
    silence_panics();
    let calls = Arc::new(calls_for(id));
    if calls.is_empty() {
        return 2;
    }
    let n = threads.max(2);
    let barrier = Arc::new(Barrier::new(n));
    let hs: Vec<_> = (0..n)
        .map(|i| {
            let calls = calls.clone();
            let barrier = barrier.clone();
            std::thread::spawn(move || {
                let c = &calls[i % calls.len()];
                barrier.wait();
                guarded(|| (c.1)()).unwrap_or_else(|p| format!("panic: {p}"))
            })
        })
        .collect();
    let firsts: Vec<String> = hs.into_iter().map(|h| h.join().unwrap_or_else(|_| "thread died".into())).collect();
    // steady state: all threads keep calling, every thread goes through every call (rotated), so that calls which
    // share hidden state (a memo line, a scratch buffer) overlap in time; distinct results are collected per call
    let rounds = 40;
    let barrier2 = Arc::new(Barrier::new(n));
    let hs: Vec<_> = (0..n)
        .map(|i| {
            let calls = calls.clone();
            let barrier2 = barrier2.clone();
            std::thread::spawn(move || {
                let mut seen: Vec<std::collections::BTreeSet<String>> = vec![Default::default(); calls.len()];
                barrier2.wait();
                for r in 0..rounds {
                    for k in 0..calls.len() {
                        let j = (k * (2 * i + 1) + i + r) % calls.len();
                        let out = guarded(|| (calls[j].1)()).unwrap_or_else(|p| format!("panic: {p}"));
                        if seen[j].len() < 4 {
                            seen[j].insert(out);
                        }
                    }
                }
                seen
            })
        })
        .collect();
    let mut seen: Vec<std::collections::BTreeSet<String>> = vec![Default::default(); calls.len()];
    for h in hs {
        if let Ok(s) = h.join() {
            for (j, set) in s.into_iter().enumerate() {
                seen[j].extend(set);
            }
        }
    }
    let mut bad = Vec::new();
    let laters: Vec<String> = calls.iter().map(|c| guarded(|| (c.1)()).unwrap_or_else(|p| format!("panic: {p}"))).collect();
    for (i, first) in firsts.iter().enumerate() {
        let j = i % calls.len();
        let c = &calls[j];
        if *first != laters[j] || c.2.as_ref().is_some_and(|w| w != first) {
            bad.push(serde_json::json!({"call": c.0, "phase": "first call", "first_concurrent": first, "later_sequential": laters[j], "reference": c.2}));
        }
    }
    for (j, set) in seen.iter().enumerate() {
        let c = &calls[j];
        for out in set {
            if *out != laters[j] || c.2.as_ref().is_some_and(|w| w != out) {
                bad.push(serde_json::json!({"call": c.0, "phase": "steady state", "first_concurrent": out, "later_sequential": laters[j], "reference": c.2}));
            }
        }
    }
    // the sequential calls at the end must themselves match the reference (a memo poisoned for good)
    for (j, c) in calls.iter().enumerate() {
        if c.2.as_ref().is_some_and(|w| *w != laters[j]) && !bad.iter().any(|b| b["call"] == c.0.as_str()) {
            bad.push(serde_json::json!({"call": c.0, "phase": "after the threads", "first_concurrent": laters[j], "later_sequential": laters[j], "reference": c.2}));
        }
    }
    println!("{}", serde_json::json!({"threads": n, "calls": calls.len(), "mismatches": bad}));
    if bad.is_empty() {
        0
    } else {
        3
    }
}

//! C05 — reference-based CPR decoding (airborne and surface), every code cell.

use crate::common::*;
use crate::cpr_ref::*;
use rs1090::decode::cpr::{airborne_position_with_reference, surface_position_with_reference, Position};
use serde_json::{json, Value};
use std::sync::atomic::{AtomicU64, Ordering};
use std::sync::Mutex;

const DEG_M: f64 = EARTH_R_M * std::f64::consts::PI / 180.0;
const TOL_M: f64 = 10.0;

#[derive(Clone, Copy)]
struct Kind {
    surface: bool,
    odd: bool,
}

impl Kind {
    fn grid(&self) -> usize {
        (self.surface as usize) * 2 + self.odd as usize
    }
    fn span(&self) -> f64 {
        if self.surface {
            90.0
        } else {
            360.0
        }
    }
    fn d_lat(&self) -> f64 {
        self.span() / if self.odd { 59.0 } else { 60.0 }
    }
    /// unambiguous range expressed as an arc in degrees (180 NM / 45 NM)
    fn rho_deg(&self) -> f64 {
        if self.surface {
            0.75
        } else {
            3.0
        }
    }
    fn name(&self) -> String {
        format!("{}-{}", if self.surface { "surface" } else { "airborne" }, if self.odd { "odd" } else { "even" })
    }
    fn lat_max_units(&self) -> i64 {
        if self.surface {
            4 * LAT_MAX_U
        } else {
            LAT_MAX_U
        }
    }
    fn p(&self) -> i64 {
        if self.odd {
            60
        } else {
            59
        }
    }
}

thread_local! { static CALLS: std::cell::Cell<u64> = const { std::cell::Cell::new(0) }; }
fn take_calls() -> u64 {
    CALLS.with(|c| c.replace(0))
}

fn decode(k: Kind, ycode: u32, xcode: u32, lat_ref: f64, lon_ref: f64) -> Result<Option<Position>, String> {
    use std::sync::OnceLock;
    CALLS.with(|c| c.set(c.get() + 1));
    set_case(5 | ((k.surface as u64) << 8) | ((k.odd as u64) << 9), ((ycode as u64) << 32) | xcode as u64, lat_ref.to_bits(), lon_ref.to_bits());
    static AIR: OnceLock<[rs1090::decode::bds::bds05::AirbornePosition; 2]> = OnceLock::new();
    static SURF: OnceLock<[rs1090::decode::bds::bds06::SurfacePosition; 2]> = OnceLock::new();
    if k.surface {
        let mut m = SURF.get_or_init(|| [surface_template(false), surface_template(true)])[k.odd as usize];
        m.lat_cpr = ycode;
        m.lon_cpr = xcode;
        guarded(|| surface_position_with_reference(&m, lat_ref, lon_ref))
    } else {
        let mut m = AIR.get_or_init(|| [airborne_template(false), airborne_template(true)])[k.odd as usize];
        m.lat_cpr = ycode;
        m.lon_cpr = xcode;
        let r = guarded(|| airborne_position_with_reference(&m, lat_ref, lon_ref));
        if (ycode == 0 || ycode == 0x1ffff) && (xcode == 0 || xcode == 0x1ffff) {
            // zone corners: the same report without an altitude (all-zero altitude subfield) must decode alike
            let mut m2 = m;
            m2.alt = None;
            let r2 = guarded(|| airborne_position_with_reference(&m2, lat_ref, lon_ref));
            if r != r2 {
                return Err(format!("the decoded position depends on the altitude subfield: {r:?} with an altitude, {r2:?} without"));
            }
        }
        r
    }
}

/// class of an Err from decode(): a panic of the decoder, or a position that depends on the altitude subfield
fn err_class(part: &str, kind: &str, msg: &str) -> String {
    if msg.starts_with("the decoded position depends") {
        format!("{part}:altitude-dependent:{kind}")
    } else {
        format!("{part}:panic:{kind}")
    }
}

fn ulp(x: f64) -> f64 {
    let b = x.abs().max(f64::MIN_POSITIVE);
    f64::from_bits(b.to_bits() + 1) - b
}

fn offsets(range: f64, e: f64) -> [f64; 11] {
    let u = ulp(e);
    [0.0, u, -u, range / 4.0, -range / 4.0, range / 2.0, -range / 2.0, 0.75 * range, -0.75 * range, 0.95 * range, -0.95 * range]
}

fn next_up(x: f64) -> f64 {
    if x == 0.0 {
        return 5e-324;
    }
    f64::from_bits(if x > 0.0 { x.to_bits() + 1 } else { x.to_bits() - 1 })
}
fn next_down(x: f64) -> f64 {
    -next_up(-x)
}

/// References on (and one or two ulps around) every zone edge k·d inside [lo, hi]: the set on which
/// floor(ref/d) and mod(ref, d) can disagree in floating point (issue #153).
fn edge_refs(lo: f64, hi: f64, span: f64, nz: f64, out: &mut Vec<f64>) {
    let d = span / nz;
    let (k0, k1) = ((lo / d).ceil() as i64, (hi / d).floor() as i64);
    for k in k0..=k1.min(k0 + 3) {
        for e in [k as f64 * d, k as f64 * span / nz] {
            for r in [e, next_up(e), next_down(e), next_up(next_up(e)), next_down(next_down(e))] {
                if r >= lo && r <= hi && !out.contains(&r) {
                    out.push(r);
                }
            }
        }
    }
}

/// Part 1, latitude: one single-message cell [a,b] against references around it.
fn check_lat_cell(k: Kind, a: i64, b: i64) -> Option<(String, String, f64)> {
    let u = lat_unit_deg(k.surface);
    let kk = floor_div(a + k.p(), 2 * k.p());
    let code = code17(kk);
    let (la, lb) = (a as f64 * u, b as f64 * u);
    let mut refs: Vec<f64> = Vec::with_capacity(40);
    for e in [la, lb] {
        for off in offsets(k.rho_deg(), e) {
            refs.push((e + off).clamp(-90.0, 90.0));
        }
    }
    edge_refs((la - 0.95 * k.rho_deg()).max(-90.0), (lb + 0.95 * k.rho_deg()).min(90.0), k.span(), if k.odd { 59.0 } else { 60.0 }, &mut refs);
    {
        let e = if (refs[0] - la).abs() < (refs[0] - lb).abs() { la } else { lb };
        for lat_ref in refs {
            match decode(k, code, 0, lat_ref, 0.0) {
                Err(p) => return Some((err_class("ref", &k.name(), &p), format!("lat code {code}, reference latitude {lat_ref}: {p}"), lat_ref)),
                Ok(None) => return Some((format!("ref:none-in-range:lat:{}", k.name()), format!("true latitude in [{la:.7},{lb:.7}], reference latitude {lat_ref:.9} ({:.3} of the range): no position", (lat_ref - e).abs().min((lat_ref - la).abs()).min((lat_ref - lb).abs()) / k.rho_deg()), lat_ref)),
                Ok(Some(p)) => {
                    let err = (p.latitude - la).abs().max((p.latitude - lb).abs()) * DEG_M;
                    if !(err <= TOL_M) {
                        return Some((format!("ref:lat-error:{}", k.name()), format!("true latitude in [{la:.7},{lb:.7}], reference {lat_ref:.9}: decoded {:.7}, {err:.1} m off", p.latitude), lat_ref));
                    }
                }
            }
        }
    }
    None
}

/// Grid index of the most poleward latitude of band n on grid g (northern hemisphere).
fn band_top_index(g: usize, n: u32) -> i64 {
    if n == 1 {
        // the pole itself
        return (90.0 / grid_step_deg(g)).floor() as i64;
    }
    let mut t = NL_THRESH.iter().find(|r| r.0 == n).unwrap().2[g];
    if n == 2 && (g == 0 || g == 2) {
        t += 1;
    }
    t - 1
}

fn band_bottom_index(g: usize, n: u32) -> i64 {
    if n == 59 {
        return 0;
    }
    let mut t = NL_THRESH.iter().find(|r| r.0 == n + 1).unwrap().2[g];
    if n + 1 == 2 && (g == 0 || g == 2) {
        t += 1;
    }
    t
}

/// Largest longitude difference of a point within arc `rho` (deg) of a point at latitude phi (deg).
fn max_dlon(phi: f64, rho: f64) -> f64 {
    let s = rho.to_radians().sin() / phi.to_radians().cos();
    if s >= 1.0 {
        180.0
    } else {
        s.asin().to_degrees()
    }
}

struct LonSetup {
    k: Kind,
    n: u32,
    ni: i64,
    d_lon: f64,
    lat_index: i64, // grid index of the message latitude (signed)
    lat_deg: f64,
    delta: f64,
}

fn lon_setup(k: Kind, n: u32, south: bool, bottom: bool) -> LonSetup {
    let g = k.grid();
    let idx = if bottom { band_bottom_index(g, n) } else { band_top_index(g, n) };
    let top = band_top_index(g, n);
    let lat_index = if south { -idx } else { idx };
    let ni = (n as i64 - k.odd as i64).max(1);
    let d_lon = k.span() / ni as f64;
    let lat_deg = lat_index as f64 * grid_step_deg(g);
    // the admissible longitude offset is governed by the most poleward latitude of the band
    let delta = max_dlon((top as f64 * grid_step_deg(g)).min(90.0), k.rho_deg());
    LonSetup { k, n, ni, d_lon, lat_index, lat_deg, delta }
}

fn norm180(x: f64) -> f64 {
    let mut y = (x + 180.0).rem_euclid(360.0) - 180.0;
    if y >= 180.0 {
        y -= 360.0;
    }
    y
}

/// Part 1, longitude: one cell [a,b] (units d_lon/2^18) of the setup's band.
fn check_lon_cell(s: &LonSetup, a: i64, b: i64) -> Option<(String, String, f64)> {
    let w = s.d_lon / 262144.0;
    let kk = floor_div(a + 1, 2);
    let xcode = code17(kk);
    let ycode = code17(s.lat_index);
    let (oa, ob) = (a as f64 * w, b as f64 * w);
    let half_zone = s.d_lon / 2.0;
    // stay strictly inside the unambiguous half zone
    let range = (0.95 * s.delta).min(0.999 * half_zone) / 0.95;
    let mut refs: Vec<f64> = Vec::with_capacity(48);
    for e in [oa, ob] {
        for (i, off) in offsets(range, e).iter().enumerate() {
            let raw = e + off;
            refs.push(norm180(raw));
            if i >= 9 {
                refs.push(raw);
            }
        }
    }
    {
        let mut edges = Vec::new();
        edge_refs(oa - 0.95 * range, ob + 0.95 * range, s.k.span(), s.ni as f64, &mut edges);
        for r in edges {
            refs.push(r);
            if norm180(r) != r {
                refs.push(norm180(r));
            }
        }
    }
    {
        {
            for lon_ref in refs {
                match decode(s.k, ycode, xcode, s.lat_deg, lon_ref) {
                    Err(p) => return Some((err_class("ref", &s.k.name(), &p), format!("codes {ycode}/{xcode}, reference ({}, {lon_ref}): {p}", s.lat_deg), lon_ref)),
                    Ok(None) => {
                        return Some((
                            format!("ref:none-in-range:lon:{}:NL={}", s.k.name(), s.n),
                            format!("band NL={} at latitude {:.6}: true longitude in [{oa:.7},{ob:.7}], reference longitude {lon_ref:.9}: no position", s.n, s.lat_deg),
                            lon_ref,
                        ))
                    }
                    Ok(Some(p)) => {
                        let dl = ang_diff(p.longitude, oa).abs().max(ang_diff(p.longitude, ob).abs());
                        let dlat = (p.latitude - s.lat_deg).abs() * DEG_M;
                        let d = ((dl * DEG_M * s.lat_deg.to_radians().cos()).powi(2) + dlat * dlat).sqrt();
                        let d = if d > 5.0 { haversine_m(p.latitude, p.longitude, s.lat_deg, oa).max(haversine_m(p.latitude, p.longitude, s.lat_deg, ob)) } else { d };
                        if !(d <= TOL_M) {
                            return Some((
                                format!("ref:lon-error:{}:NL={}", s.k.name(), s.n),
                                format!("band NL={} at latitude {:.6}: true longitude in [{oa:.7},{ob:.7}], reference {lon_ref:.9}: decoded ({:.7},{:.7}), {d:.1} m off", s.n, s.lat_deg, p.latitude, p.longitude),
                                lon_ref,
                            ));
                        }
                    }
                }
            }
        }
    }
    None
}

/// Part 2: any finite reference — result absent or within half a zone of the reference.
fn check_any_ref(k: Kind, ycode: u32, xcode: u32, lat_ref: f64, lon_ref: f64) -> Option<(String, String)> {
    match decode(k, ycode, xcode, lat_ref, lon_ref) {
        Err(p) => Some((err_class("anyref", &k.name(), &p), format!("codes {ycode}/{xcode} reference ({lat_ref:e},{lon_ref:e}): {p}"))),
        Ok(None) => None,
        Ok(Some(p)) => {
            if !p.latitude.is_finite() || !p.longitude.is_finite() {
                return Some((format!("anyref:non-finite:{}", k.name()), format!("codes {ycode}/{xcode} reference ({lat_ref:e},{lon_ref:e}): ({},{})", p.latitude, p.longitude)));
            }
            if !(-90.0..=90.0).contains(&p.latitude) {
                return Some((format!("anyref:lat-range:{}", k.name()), format!("codes {ycode}/{xcode} reference ({lat_ref:e},{lon_ref:e}): latitude {}", p.latitude)));
            }
            let tol = 1.0 + 1e-12;
            if (p.latitude - lat_ref).abs() > k.d_lat() / 2.0 * tol + ulp(lat_ref) {
                return Some((format!("anyref:lat-far:{}", k.name()), format!("codes {ycode}/{xcode} reference latitude {lat_ref:e}: decoded latitude {} is more than half a zone away", p.latitude)));
            }
            let (nl, near) = ref_nl_f64(p.latitude);
            let cands: Vec<u32> = if near { vec![nl, nl + 1, nl.saturating_sub(1).max(1)] } else { vec![nl] };
            let ok = cands.iter().any(|&n| {
                let ni = (n as i64 - k.odd as i64).max(1);
                let d_lon = k.span() / ni as f64;
                (p.longitude - lon_ref).abs() <= d_lon / 2.0 * tol + ulp(lon_ref)
            });
            if !ok {
                return Some((format!("anyref:lon-far:{}", k.name()), format!("codes {ycode}/{xcode} reference ({lat_ref:e},{lon_ref:e}): decoded longitude {} (NL={nl}) is more than half a zone away", p.longitude)));
            }
            None
        }
    }
}

fn abs_refs(d: f64, nz: i64) -> Vec<f64> {
    let mut v = vec![0.0, 90.0, -90.0, 180.0, -180.0, 360.0, -360.0, 1e6, -1e6, 1e300, -1e300, f64::MAX, -f64::MAX, 5e-324, -5e-324, 45.0, -45.0, 89.999_999, -89.999_999];
    for x in [90.0f64, -90.0, 180.0, -180.0] {
        v.push(x + ulp(x));
        v.push(x - ulp(x));
    }
    for z in -nz..=nz {
        let e = z as f64 * d;
        v.push(e);
        v.push(e + ulp(e));
        v.push(e - ulp(e));
        v.push(e + d / 2.0);
    }
    v
}

pub fn run(ctx: &Ctx, rep: &Report) {
    let thorough = ctx.thorough();
    rep.set_rule("Part 1: every single-message latitude cell × 22 reference latitudes around it (up to 0.95 of the range), and every longitude cell of every band × up to 26 reference longitudes, for airborne/surface × even/odd, decoded by the real *_with_reference functions; Part 2: every count × absolute adversarial references. non-trivial = cells for which a position must be returned");
    let kinds = [Kind { surface: false, odd: false }, Kind { surface: false, odd: true }, Kind { surface: true, odd: false }, Kind { surface: true, odd: true }];
    // ---- Part 1 latitude ------------------------------------------------------
    for k in kinds {
        let lmax = k.lat_max_units();
        let p = k.p();
        let nbins = (2 * lmax / (2 * p) + 2) as u64;
        let cnt = AtomicU64::new(0);
        par_ranges(ctx.threads, nbins, 8192, |lo, hi| {
            let a0 = (-lmax + 2 * p * lo as i64).min(lmax);
            let b0 = (-lmax + 2 * p * hi as i64).min(lmax);
            if a0 >= b0 {
                return;
            }
            let mut bad = 0;
            let mut c = 0u64;
            for_cells(p, 0, a0, b0, |a, b| {
                if bad > 16 {
                    return;
                }
                c += 1;
                if let Some((cl, w, r)) = check_lat_cell(k, a, b) {
                    bad += 1;
                    rep.violation(&cl, w, json!({"kind":"lat","surface":k.surface,"odd":k.odd,"a":a,"b":b,"ref":r}));
                }
            });
            cnt.fetch_add(c, Ordering::Relaxed);
            rep.eval(take_calls());
        });
        let c = cnt.load(Ordering::Relaxed);
        rep.nontriv(c);
        rep.state(c);
        rep.outcome(&format!("part1:lat:{}:position", k.name()), c);
        rep.part(&format!("part1:latitude-cells:{}", k.name()), c, json!({"references_per_cell": "22 around the cell ends + every zone edge in range (exact, ±1, ±2 ulp)"}));
        if stopped() {
            return finish(rep, thorough);
        }
    }
    // ---- Part 1 longitude -----------------------------------------------------
    let quick_bands: Vec<u32> = vec![1, 2, 3, 30, 58, 59];
    let skipped = Mutex::new(Vec::<String>::new());
    let mut total_cells = 0u64;
    for k in kinds {
        for n in 1..=59u32 {
            if !thorough && (!quick_bands.contains(&n) || (k.surface && ![2, 30].contains(&n))) {
                continue;
            }
            for south in [false, true] {
                if !thorough && south && n % 2 == 0 {
                    continue;
                }
                for bottom in [false, true] {
                    if bottom && (!thorough || n == 1) {
                        continue;
                    }
                    let s = lon_setup(k, n, south, bottom);
                    if 0.95 * s.delta >= s.d_lon / 2.0 && !(s.ni == 1 && !k.surface) {
                        // the disc of the unambiguous range is wider than half a zone at this latitude: the
                        // format itself is ambiguous there (surface positions next to the poles)
                        skipped.lock().unwrap().push(format!("{} NL={} (delta {:.2} >= half zone {:.2})", k.name(), n, 0.95 * s.delta, s.d_lon / 2.0));
                        continue;
                    }
                    let circle_bins = (if k.surface { 4 } else { 1 }) * s.ni * TWO17;
                    let cnt = AtomicU64::new(0);
                    par_ranges(ctx.threads, circle_bins as u64, 16384, |lo, hi| {
                        let (a0, b0) = (2 * lo as i64, 2 * hi as i64);
                        let mut bad = 0;
                        let mut c = 0u64;
                        for_cells(1, 0, a0, b0, |a, b| {
                            if bad > 16 {
                                return;
                            }
                            c += 1;
                            if let Some((cl, w, r)) = check_lon_cell(&s, a, b) {
                                bad += 1;
                                rep.violation(&cl, w, json!({"kind":"lon","surface":k.surface,"odd":k.odd,"n":n,"south":south,"bottom":bottom,"a":a,"b":b,"ref":r}));
                            }
                        });
                        cnt.fetch_add(c, Ordering::Relaxed);
                        rep.eval(take_calls());
                    });
                    let c = cnt.load(Ordering::Relaxed);
                    total_cells += c;
                    rep.nontriv(c);
                    rep.outcome(&format!("part1:lon:{}:position", k.name()), c);
                    if stopped() {
                        return finish(rep, thorough);
                    }
                }
            }
        }
        rep.part(&format!("part1:longitude-cells:{}", k.name()), total_cells, json!({"bands": if thorough {"1..=59, both hemispheres, most poleward and most equatorward latitude of each band"} else {"quick subset"}}));
    }
    // ---- Part 1 longitude, band edges: every band of every grid, both hemispheres, at the most poleward and the
    // most equatorward latitude bin of the band (where a shifted NL threshold shows), on 64 groups of 8 longitude
    // cells spread around the circle. Cheap, so it runs for all 59 bands in both tiers.
    {
        let mut edge_cells = 0u64;
        for k in kinds {
            for n in 1..=59u32 {
                for south in [false, true] {
                    for bottom in [false, true] {
                        if bottom && n == 1 {
                            continue;
                        }
                        let s = lon_setup(k, n, south, bottom);
                        if 0.95 * s.delta >= s.d_lon / 2.0 && !(s.ni == 1 && !k.surface) {
                            continue;
                        }
                        let circle_bins = (if k.surface { 4 } else { 1 }) * s.ni * TWO17;
                        for g in 0..64i64 {
                            let a0 = 2 * (g * circle_bins / 64);
                            let mut c = 0u64;
                            let mut bad = 0;
                            for_cells(1, 0, a0, a0 + 16, |a, b| {
                                if bad > 2 {
                                    return;
                                }
                                c += 1;
                                if let Some((cl, w, r)) = check_lon_cell(&s, a, b) {
                                    bad += 1;
                                    rep.violation(&cl, w, json!({"kind":"lon","surface":k.surface,"odd":k.odd,"n":n,"south":south,"bottom":bottom,"a":a,"b":b,"ref":r}));
                                }
                            });
                            edge_cells += c;
                        }
                        rep.eval(take_calls());
                    }
                }
            }
        }
        rep.nontriv(edge_cells);
        rep.part("part1:longitude-cells at the edge latitudes of all 59 bands, all four grids", edge_cells, json!({}));
    }
    rep.state(total_cells);
    rep.note("bands_outside_the_claim", json!(*skipped.lock().unwrap()));
    // ---- Part 2: any finite reference ------------------------------------------
    for k in kinds {
        let lat_refs = abs_refs(k.d_lat(), if k.surface { 62 } else { 16 });
        let stride = if thorough { 1 } else { 32 };
        let n = AtomicU64::new(0);
        let some = AtomicU64::new(0);
        par_ranges(ctx.threads, (TWO17 as u64) / stride, 256, |lo, hi| {
            let mut c = 0u64;
            let mut sm = 0u64;
            for y in lo..hi {
                let y = (y * stride) as u32;
                for &r in &lat_refs {
                    c += 1;
                    if let Some((cl, w)) = check_any_ref(k, y, 0x15555, r, 0.0) {
                        rep.violation(&cl, w, json!({"kind":"any","surface":k.surface,"odd":k.odd,"y":y,"x":0x15555,"lat_ref":r,"lon_ref":0.0}));
                    }
                    if let Ok(Some(_)) = decode(k, y, 0x15555, r, 0.0) {
                        sm += 1;
                    }
                }
            }
            n.fetch_add(c, Ordering::Relaxed);
            some.fetch_add(sm, Ordering::Relaxed);
            rep.eval(take_calls());
        });
        rep.outcome(&format!("part2:lat:{}:position", k.name()), some.load(Ordering::Relaxed));
        rep.outcome(&format!("part2:lat:{}:none", k.name()), n.load(Ordering::Relaxed) - some.load(Ordering::Relaxed));
        // longitude counts per band
        let n2 = AtomicU64::new(0);
        let bands: Vec<u32> = if thorough { (1..=59).collect() } else { quick_bands.clone() };
        for &nb in &bands {
            let s = lon_setup(k, nb, false, false);
            let lon_refs = abs_refs(s.d_lon, if k.surface { 4 * s.ni + 1 } else { s.ni + 1 });
            let ycode = code17(s.lat_index);
            par_ranges(ctx.threads, (TWO17 as u64) / stride, 256, |lo, hi| {
                let mut c = 0u64;
                for x in lo..hi {
                    let x = (x * stride) as u32;
                    for &r in &lon_refs {
                        c += 1;
                        if let Some((cl, w)) = check_any_ref(k, ycode, x, s.lat_deg, r) {
                            rep.violation(&cl, w, json!({"kind":"any","surface":k.surface,"odd":k.odd,"y":ycode,"x":x,"lat_ref":s.lat_deg,"lon_ref":r}));
                        }
                    }
                }
                n2.fetch_add(c, Ordering::Relaxed);
                rep.eval(take_calls());
            });
            if stopped() {
                return finish(rep, thorough);
            }
        }
        rep.part(&format!("part2:any-finite-reference:{}", k.name()), n.load(Ordering::Relaxed) + n2.load(Ordering::Relaxed), json!({"lat_references": lat_refs.len(), "count_stride": stride}));
    }
    sequences(ctx, rep);
    finish(rep, thorough);
}

/// One call of the subject as data: (kind, codes, reference)
type CallSpec = (Kind, u32, u32, f64, f64);

fn bits_of(r: &Result<Option<Position>, String>) -> Result<Option<(u64, u64)>, String> {
    r.clone().map(|o| o.map(|p| (p.latitude.to_bits(), p.longitude.to_bits())))
}

/// Two calls on one thread that differ in exactly ONE argument dimension (parity, airborne/surface, latitude code,
/// longitude code, reference latitude, reference longitude): the second must give what it gives after unrelated
/// calls. A decoder that remembers its last call under a key that leaves one dimension out answers the second call
/// with the first call's result.
fn seq_pair(a: CallSpec, b: CallSpec, rep: &Report) -> u64 {
    let flush = || {
        for i in 0..6u32 {
            let _ = decode(Kind { surface: i & 1 == 1, odd: i & 2 == 2 }, 30_000 + 17 * i, 90_000 + 5 * i, 48.0 + i as f64 * 0.01, 11.0 - i as f64 * 0.01);
        }
    };
    flush();
    let alone = bits_of(&decode(b.0, b.1, b.2, b.3, b.4));
    flush();
    let _ = decode(a.0, a.1, a.2, a.3, a.4);
    let r = decode(b.0, b.1, b.2, b.3, b.4);
    if bits_of(&r) != alone {
        let dim = if a.0.odd != b.0.odd { "parity" } else if a.0.surface != b.0.surface { "surface" } else if a.1 != b.1 { "lat-code" } else if a.2 != b.2 { "lon-code" } else if a.3.to_bits() != b.3.to_bits() { "lat-ref" } else { "lon-ref" };
        rep.violation(&format!("sequence:order-dependent:{dim}"), format!("{} codes {}/{} reference ({},{}) decoded right after a call that differs only in {dim} gives {:?}, but after unrelated calls it gives another result", b.0.name(), b.1, b.2, b.3, b.4, r.as_ref().map(|o| o.map(|p| (p.latitude, p.longitude)))), json!({"kind":"sequence","first":{"surface":a.0.surface,"odd":a.0.odd,"y":a.1,"x":a.2,"lat_ref":a.3,"lon_ref":a.4},"second":{"surface":b.0.surface,"odd":b.0.odd,"y":b.1,"x":b.2,"lat_ref":b.3,"lon_ref":b.4}}));
    }
    3
}

fn sequences(ctx: &Ctx, rep: &Report) {
    // base calls: codes of true positions next to their references, in several bands and both hemispheres, plus zone corners
    let mut bases: Vec<CallSpec> = Vec::new();
    let pts: [(f64, f64); 9] = [(48.2, 11.4), (-33.9, 151.2), (0.0004, 0.0003), (71.2, -179.96), (-86.9, 45.0), (10.4704, 3.1), (59.95, -0.02), (35.6, 139.8), (-0.0004, 179.9997)];
    for (lat, lon) in pts {
        for surface in [false, true] {
            for odd in [false, true] {
                let k = Kind { surface, odd };
                let span = k.span();
                let dlat = k.d_lat();
                let y = ((131072.0 * (lat.rem_euclid(dlat) / dlat) + 0.5).floor() as i64).rem_euclid(1 << 17) as u32;
                let x = ((131072.0 * (lon.rem_euclid(span / 30.0) / (span / 30.0)) + 0.5).floor() as i64).rem_euclid(1 << 17) as u32;
                bases.push((k, y, x, lat + 0.2, lon - 0.3));
            }
        }
    }
    for v in [0u32, 1, 65_536, 131_071] {
        for k in [Kind { surface: false, odd: false }, Kind { surface: true, odd: true }] {
            bases.push((k, v, v, 0.1, 0.1));
            bases.push((k, v, 131_071 - v, -0.1, 179.9));
        }
    }
    let n = AtomicU64::new(0);
    par_items(ctx.threads, bases.len(), |i| {
        let b = bases[i];
        let mut c = 0;
        let mut vars: Vec<CallSpec> = Vec::new();
        vars.push((Kind { odd: !b.0.odd, ..b.0 }, b.1, b.2, b.3, b.4));
        vars.push((Kind { surface: !b.0.surface, ..b.0 }, b.1, b.2, b.3, b.4));
        for d in [1u32, 2, 64, 4096, 65_536] {
            vars.push((b.0, (b.1 + d) % 131_072, b.2, b.3, b.4));
            vars.push((b.0, b.1, (b.2 + d) % 131_072, b.3, b.4));
        }
        for d in [1e-9, 0.01, 0.7, 3.1, 6.5, 45.0, -90.0] {
            vars.push((b.0, b.1, b.2, b.3 + d, b.4));
            vars.push((b.0, b.1, b.2, b.3, b.4 + d));
            vars.push((b.0, b.1, b.2, b.3, b.4 + 8.0 * d));
        }
        vars.push((b.0, b.1, b.2, -b.3, b.4));
        vars.push((b.0, b.1, b.2, b.3, -b.4));
        vars.push((b.0, b.1, b.2, b.3, b.4 + 360.0));
        for v in vars {
            c += seq_pair(b, v, rep);
            c += seq_pair(v, b, rep);
        }
        n.fetch_add(c, Ordering::Relaxed);
        rep.eval(take_calls());
    });
    rep.part("two-call sequences: ordered pairs of calls that differ in exactly one argument dimension", n.load(Ordering::Relaxed) / 3, json!({"base_calls": bases.len()}));
    rep.outcome("sequence:pairs", n.load(Ordering::Relaxed) / 3);
}

fn finish(rep: &Report, thorough: bool) {
    rep.trans(rep.evaluations.load(Ordering::Relaxed));
    rep.sample(json!({"kind":"lat","surface":false,"odd":false,"cell_units":[59,177],"references":"cell ends + {0, ±ulp, ±0.75°, ±1.5°, ±2.25°, ±2.85°}"}));
    rep.sample(json!({"kind":"lon","surface":true,"odd":true,"band":30,"cell_units":[1,3],"unit_deg": 90.0/29.0/262144.0}));
    rep.sample(json!({"kind":"any","lat_ref":1e300,"lon_ref":0.0,"expected":"None"}));
    rep.set_bound(if thorough {
        "Part 1 complete: every latitude cell (4 kinds × 22 references) and every longitude cell of every band 1..59, both hemispheres, at the most poleward and most equatorward grid latitude of the band (× 26 references up to 0.95 of the admissible offset). Part 2: every 17-bit count × every listed absolute reference, every band"
    } else {
        "Part 1 latitude complete; longitude cells for bands {1,2,3,30,58,59} (airborne) and {2,30} (surface), most poleward latitude only; Part 2 on every 32nd count"
    });
    if !thorough {
        rep.exhaustive.store(false, Ordering::Relaxed);
    }
    rep.assume("reference continuum: the zone index is floor of an expression monotone in the reference, so agreement at both ends of the admissible interval and at its quarter points implies agreement inside");
    rep.assume("references between 0.95 and 1.0 of the unambiguous range, and surface positions where a 45 NM disc is wider than half a longitude zone (next to the poles), are outside the claim");
}

pub fn replay(w: &Value, rep: &Report) {
    let k = Kind { surface: w["surface"].as_bool().unwrap_or(false), odd: w["odd"].as_bool().unwrap_or(false) };
    match w["kind"].as_str() {
        Some("lat") => {
            if let Some((cl, what, _)) = check_lat_cell(k, w["a"].as_i64().unwrap(), w["b"].as_i64().unwrap()) {
                rep.violation(&cl, what, w.clone());
            }
        }
        Some("lon") => {
            let s = lon_setup(k, w["n"].as_u64().unwrap() as u32, w["south"].as_bool().unwrap_or(false), w["bottom"].as_bool().unwrap_or(false));
            if let Some((cl, what, _)) = check_lon_cell(&s, w["a"].as_i64().unwrap(), w["b"].as_i64().unwrap()) {
                rep.violation(&cl, what, w.clone());
            }
        }
        Some("any") => {
            if let Some((cl, what)) = check_any_ref(k, w["y"].as_u64().unwrap() as u32, w["x"].as_u64().unwrap() as u32, w["lat_ref"].as_f64().unwrap_or(f64::MAX), w["lon_ref"].as_f64().unwrap_or(f64::MAX)) {
                rep.violation(&cl, what, w.clone());
            }
        }
        Some("sequence") => {
            let spec = |v: &Value| -> CallSpec { (Kind { surface: v["surface"].as_bool().unwrap_or(false), odd: v["odd"].as_bool().unwrap_or(false) }, v["y"].as_u64().unwrap_or(0) as u32, v["x"].as_u64().unwrap_or(0) as u32, v["lat_ref"].as_f64().unwrap_or(0.0), v["lon_ref"].as_f64().unwrap_or(0.0)) };
            seq_pair(spec(&w["first"]), spec(&w["second"]), rep);
        }
        _ => panic!("bad witness"),
    }
}

//! C03 — field decoding inverts the standard's encoding: every code of every
//! listed field is put into a complete frame by the independent bit-level
//! builder (frames.rs, written from Annex 10 / Doc 9871 / DO-260B tables),
//! decoded by the real `Message::try_from`, and the value read back from the
//! JSON is compared with the value that was encoded.

use crate::c13::RefAlt;
use crate::common::*;
use crate::frames::*;
use rs1090::decode::Message;
use serde_json::{json, Value};
use std::sync::atomic::{AtomicU64, Ordering};

const ADDR: u32 = 0x4840d6;

pub struct Cx<'a> {
    pub rep: &'a Report,
    pub n: AtomicU64,
    pub reported: AtomicU64,
    /// a repetition of the Comm-B sections under another header context: no part lines
    pub quiet: bool,
    /// 1 = every frame; n = every n-th frame built (quick tier, repetitions under other header contexts)
    pub thin: u64,
    pub seq: AtomicU64,
}

thread_local! {
    /// header context of the Comm-B replies built by this thread: (FS, DR, UM, adversarial altitude)
    static HDR: std::cell::Cell<(u8, u8, u8, bool)> = const { std::cell::Cell::new((0, 0, 0, false)) };
}

/// decode a frame to JSON; a rejected or panicking frame is a violation of
/// class `<field>:rejected` / panic
fn dj(cx: &Cx, field: &str, f: &[u8]) -> Option<Value> {
    if cx.thin > 1 && cx.seq.fetch_add(1, Ordering::Relaxed) % cx.thin != 0 {
        return None;
    }
    cx.n.fetch_add(1, Ordering::Relaxed);
    set_case_bytes(3, f);
    match guarded(|| Message::try_from(f).map_err(|e| e.to_string())) {
        Err(p) => {
            cx.rep.violation(&format!("{field}:panic:{}", panic_class(&p)), format!("decoder panicked on {}: {p}", hexs(f)), json!({"frame": hexs(f), "field": field}));
            None
        }
        Ok(Err(e)) => {
            cx.rep.violation(&format!("{field}:rejected"), format!("frame {} built by the reference encoder is rejected: {e}", hexs(f)), json!({"frame": hexs(f), "field": field}));
            None
        }
        Ok(Ok(m)) => match serde_json::to_value(&m) {
            Ok(v) => Some(v),
            Err(e) => {
                cx.rep.violation(&format!("{field}:unserialisable"), format!("frame {}: {e}", hexs(f)), json!({"frame": hexs(f), "field": field}));
                None
            }
        },
    }
}

fn bad(cx: &Cx, class: &str, what: String, f: &[u8], expect: Value) {
    cx.rep.violation(class, what, json!({"frame": hexs(f), "field": class, "expect": expect}));
}

/// numeric member must be present and within `tol` of `want`
fn num(cx: &Cx, class: &str, j: &Value, path: &[&str], want: f64, tol: f64, f: &[u8]) {
    let mut v = j;
    for p in path {
        v = &v[*p];
    }
    match v.as_f64() {
        Some(g) if (g - want).abs() <= tol => {
            cx.reported.fetch_add(1, Ordering::Relaxed);
        }
        Some(g) => bad(cx, class, format!("{} encoded as {want}, decoded as {g} (frame {})", path.join("."), hexs(f)), f, json!({"path": path, "want": want, "tol": tol})),
        None => bad(cx, &format!("{class}:missing"), format!("{} encoded as {want} is not reported (frame {}): {v}", path.join("."), hexs(f)), f, json!({"path": path, "want": want, "tol": tol})),
    }
}

fn text(cx: &Cx, class: &str, j: &Value, path: &[&str], want: &str, f: &[u8]) {
    let mut v = j;
    for p in path {
        v = &v[*p];
    }
    if v.as_str() == Some(want) {
        cx.reported.fetch_add(1, Ordering::Relaxed);
    } else {
        bad(cx, class, format!("{} encoded as {want:?}, decoded as {v} (frame {})", path.join("."), hexs(f)), f, json!({"path": path, "want": want}));
    }
}

/// the extended-squitter carriers of an ME field: ADS-B (DF17) and three DF18 control fields
fn carriers(me: &[u8; 7]) -> Vec<Vec<u8>> {
    vec![df17(5, ADDR, me, 0), df18(0, ADDR, me, 0), df18(2, ADDR, me, 0), df18(6, ADDR, me, 0)]
}

// ---------------------------------------------------------------------------

fn addresses(ctx: &Ctx, cx: &Cx) {
    let chk = |a: u32| {
        let want = format!("{a:06x}");
        let f = df11(5, a, 0);
        if let Some(j) = dj(cx, "address:DF11", &f) {
            text(cx, "address:DF11", &j, &["icao24"], &want, &f);
        }
    };
    if ctx.thorough() {
        par_ranges(ctx.threads, 1 << 24, 4096, |lo, hi| {
            for a in lo..hi {
                chk(a as u32);
            }
        });
    } else {
        for sh in [0u32, 4, 8] {
            for bg in [0u32, 0xffffff] {
                par_ranges(ctx.threads, 65536, 2048, |lo, hi| {
                    for w in lo..hi {
                        chk((bg & !(0xffff << sh)) | ((w as u32) << sh));
                    }
                });
            }
        }
    }
    for sh in [0u32, 4, 8] {
        par_ranges(ctx.threads, 65536, 2048, |lo, hi| {
            for w in lo..hi {
                let a = (0x5a5a5a & !(0xffff << sh)) | ((w as u32) << sh);
                let want = format!("{a:06x}");
                let me = me_bds08(4, 0, &cs_codes("TEST"));
                let f = df17(5, a, &me, 0);
                if let Some(j) = dj(cx, "address:DF17", &f) {
                    text(cx, "address:DF17", &j, &["icao24"], &want, &f);
                }
                let f = df18(0, a, &me, 0);
                if let Some(j) = dj(cx, "address:DF18", &f) {
                    text(cx, "address:DF18", &j, &["icao24"], &want, &f);
                }
            }
        });
    }
    cx.rep.part("address", cx.n.load(Ordering::Relaxed), json!({}));
}

fn callsigns(cx: &Cx) {
    let base = "ABCDEFGH";
    for pos in 0..8 {
        for code in 0..64u8 {
            let Some(ch) = cs_char(code) else { continue };
            let mut cs = cs_codes(base);
            cs[pos] = code;
            let want: String = base.chars().enumerate().map(|(i, c)| if i == pos { ch } else { c }).filter(|c| *c != ' ').collect();
            for tc in 1..=4u8 {
                for ca in 0..8u8 {
                    for f in carriers(&me_bds08(tc, ca, &cs)) {
                        if let Some(j) = dj(cx, "callsign:bds08", &f) {
                            text(cx, "callsign:bds08", &j, &["callsign"], &want, &f);
                        }
                    }
                }
            }
            for df in [20u8, 21] {
                let f = commb_frame(df, &mb_bds20(&cs));
                if let Some(j) = dj(cx, "callsign:bds20", &f) {
                    text(cx, "callsign:bds20", &j, &["bds20", "callsign"], &want, &f);
                }
            }
        }
    }
    // trailing padding: every length 1..=8
    for len in 1..=8 {
        let s: String = "KLM1023X".chars().take(len).collect();
        let f = df17(5, ADDR, &me_bds08(4, 3, &cs_codes(&s)), 0);
        if let Some(j) = dj(cx, "callsign:bds08", &f) {
            text(cx, "callsign:bds08", &j, &["callsign"], &s, &f);
        }
    }
    cx.rep.part("call sign", cx.n.load(Ordering::Relaxed), json!({}));
}

/// what may be reported for a standard altitude
fn alt_ok(std: Option<i32>, got: Option<f64>) -> bool {
    let g = got.unwrap_or(0.0);
    match std {
        None => g == 0.0,
        Some(a) if a <= 0 || a > 65535 => g == 0.0,
        Some(a) => g == a as f64,
    }
}

fn altitudes(cx: &Cx) {
    let r = RefAlt::new();
    for code in 0..8192u16 {
        let Ok(std) = r.ac13(code) else { continue };
        if std.is_none() {
            continue; // illegal codes are C13's business; here: encodable values
        }
        for (df, f) in [(4u8, df4_5(4, 0, 0, 0, code, ADDR)), (20, df20_21(20, 0, 0, 0, code, &[0u8; 7], ADDR))] {
            if let Some(j) = dj(cx, "altitude:AC13", &f) {
                if !alt_ok(std, j["altitude"].as_f64()) {
                    bad(cx, "altitude:AC13", format!("DF{df} AC code {code:#06x} encodes {} ft, decoded as {}", std.unwrap(), j["altitude"]), &f, json!({"want": std}));
                } else {
                    cx.reported.fetch_add(1, Ordering::Relaxed);
                }
            }
        }
    }
    for code in 0..4096u16 {
        let c13 = ((code & 0xfc0) << 1) | (code & 0x3f);
        let Ok(std) = r.ac13(c13) else { continue };
        if std.is_none() {
            continue;
        }
        for tc in (9..=18u8).chain(20..=22) {
            let class = if tc < 19 { "altitude:AC12:barometric" } else { "altitude:AC12:GNSS" };
            for (ci, f) in carriers(&me_bds05(tc, (code & 3) as u8, (code >> 2 & 1) as u8, code, (code >> 3 & 1) as u8, (code >> 4 & 1) as u8, 93000, 51372)).into_iter().enumerate() {
                if ci > 0 && tc != 11 && tc != 20 {
                    continue; // DF18 carriers on one barometric and one GNSS type code
                }
                if let Some(j) = dj(cx, class, &f) {
                    if !alt_ok(std, j["altitude"].as_f64()) {
                        bad(cx, class, format!("TC {tc} altitude code {code:#05x} encodes {} ft, decoded as {} (frame {})", std.unwrap(), j["altitude"], hexs(&f)), &f, json!({"want": std}));
                    } else if std == Some(0) && j["altitude"].as_f64() != Some(0.0) {
                        // 0 ft is an encodable value and this member is optional: it must come out as 0, not as null
                        bad(cx, class, format!("TC {tc} altitude code {code:#05x} encodes 0 ft, decoded as {} (frame {})", j["altitude"], hexs(&f)), &f, json!({"want": std}));
                    } else {
                        cx.reported.fetch_add(1, Ordering::Relaxed);
                    }
                }
            }
        }
    }
    cx.rep.part("altitude", cx.n.load(Ordering::Relaxed), json!({}));
}

fn squawks(cx: &Cx) {
    for s in 0..4096u16 {
        let (a, b, c, d) = (((s >> 9) & 7) as u8, ((s >> 6) & 7) as u8, ((s >> 3) & 7) as u8, (s & 7) as u8);
        let code = id13(a, b, c, d);
        let want = format!("{a}{b}{c}{d}");
        let f = df4_5(5, 0, 0, 0, code, ADDR);
        if let Some(j) = dj(cx, "squawk:DF5", &f) {
            text(cx, "squawk:DF5", &j, &["squawk"], &want, &f);
        }
        let f = df20_21(21, 0, 0, 0, code, &[0u8; 7], ADDR);
        if let Some(j) = dj(cx, "squawk:DF21", &f) {
            text(cx, "squawk:DF21", &j, &["squawk"], &want, &f);
        }
        for f in carriers(&me_bds61(1, (s & 7) as u8 % 6, code)) {
            if let Some(j) = dj(cx, "squawk:bds61", &f) {
                text(cx, "squawk:bds61", &j, &["squawk"], &want, &f);
            }
        }
    }
    cx.rep.part("squawk", cx.n.load(Ordering::Relaxed), json!({}));
}

fn velocities(ctx: &Ctx, cx: &Cx) {
    // subtype 1: every sign/magnitude pair (quick: a grid with all boundaries)
    let codes: Vec<u16> = if ctx.thorough() {
        (1..=1023).collect()
    } else {
        let mut v: Vec<u16> = (1..=1023).step_by(16).collect();
        v.extend([2, 3, 4, 511, 512, 513, 1021, 1022, 1023]);
        v.sort();
        v.dedup();
        v
    };
    let k = codes.len() as u64;
    par_ranges(ctx.threads, 4 * k, 1, |lo, hi| {
        for i in lo..hi {
            let (dew, dns) = (((i / k) & 1) as u8, ((i / k) >> 1) as u8);
            let vew = codes[(i % k) as usize];
            for &vns in &codes {
                let ew = (vew as f64 - 1.0) * if dew == 1 { -1.0 } else { 1.0 };
                let ns = (vns as f64 - 1.0) * if dns == 1 { -1.0 } else { 1.0 };
                let gs = (ew * ew + ns * ns).sqrt();
                let mut trk = ew.atan2(ns).to_degrees();
                if trk < 0.0 {
                    trk += 360.0;
                }
                let f = df17(5, ADDR, &me_bds09_gs(1, 0, 0, 0, dew, vew, dns, vns, 0, 0, 10, 0, 5), 0);
                if let Some(j) = dj(cx, "velocity:ground", &f) {
                    num(cx, "velocity:groundspeed", &j, &["groundspeed"], gs, 1e-6 * (1.0 + gs), &f);
                    if gs > 0.0 {
                        // one quantisation step of a component seen from the origin
                        let tol = (1.0f64 / gs).atan().to_degrees().min(1e-6 + 1e-9);
                        let g = j["track"].as_f64().unwrap_or(f64::NAN);
                        let d = ((g - trk + 540.0).rem_euclid(360.0) - 180.0).abs();
                        if !(d <= tol.max(1e-6)) {
                            bad(cx, "velocity:track", format!("ew={ew} ns={ns} kt: track {trk}, decoded as {g}"), &f, json!({"want": trk}));
                        }
                    }
                }
            }
        }
    });
    // subtype 3: heading (every code, status set), airspeed (every code, IAS and TAS)
    for h in 0..1024u16 {
        for ty in [0u8, 1] {
            // the other flags of the message vary with the code (intent change, IFR, NUC, vertical-rate source and signs)
            for f in carriers(&me_bds09_as(3, (h & 1) as u8, (h >> 1 & 1) as u8, (h >> 2 & 7) as u8, 1, h, ty, 251, (h >> 5 & 1) as u8, (h >> 6 & 1) as u8, 10 + (h & 255), (h >> 7 & 1) as u8, 5)) {
                if let Some(j) = dj(cx, "velocity:heading", &f) {
                    num(cx, "velocity:heading", &j, &["heading"], h as f64 * 360.0 / 1024.0, 1e-9, &f);
                }
            }
        }
    }
    for a in 1..=1023u16 {
        for (ty, key) in [(0u8, "IAS"), (1, "TAS")] {
            for hs in [0u8, 1] {
                for f in carriers(&me_bds09_as(3, 0, 0, 0, hs, 512 + (a & 511), ty, a, (a & 1) as u8, (a >> 1 & 1) as u8, 10, 0, 5)) {
                    if let Some(j) = dj(cx, "velocity:airspeed", &f) {
                        num(cx, &format!("velocity:airspeed:{key}"), &j, &[key], a as f64 - 1.0, 0.0, &f);
                    }
                }
            }
        }
    }
    // vertical rate: every code x sign x source; GNSS-baro difference: every code x sign
    for vr in 1..=511u16 {
        for svr in [0u8, 1] {
            for src in [0u8, 1] {
                let want = (vr as f64 - 1.0) * 64.0 * if svr == 1 { -1.0 } else { 1.0 };
                for st in [1u8, 3] {
                    for f in carriers(&me_bds09_gs(st, (vr & 1) as u8, (vr >> 1 & 1) as u8, (vr >> 2 & 7) as u8, 0, 100, 1, 200, src, svr, vr, (vr >> 5 & 1) as u8, (vr & 0x7f) as u8)) {
                        if let Some(j) = dj(cx, "velocity:vertical_rate", &f) {
                            num(cx, "velocity:vertical_rate", &j, &["vertical_rate"], want, 0.0, &f);
                        }
                    }
                }
            }
        }
    }
    for d in 1..=126u8 {
        for s in [0u8, 1] {
            let want = (d as f64 - 1.0) * 25.0 * if s == 1 { -1.0 } else { 1.0 };
            for st in [1u8, 3] {
                for f in carriers(&me_bds09_gs(st, 0, 0, 0, 0, 100, 1, 200, (d & 1) as u8, (d >> 1 & 1) as u8, 10 + d as u16, s, d)) {
                    if let Some(j) = dj(cx, "velocity:geo_minus_baro", &f) {
                        num(cx, "velocity:geo_minus_baro", &j, &["geo_minus_baro"], want, 0.0, &f);
                    }
                }
            }
        }
    }
    cx.rep.part("velocity", cx.n.load(Ordering::Relaxed), json!({"codes_per_component": codes.len()}));
}

/// DO-260B table 2.2.3.2.4.2 (movement): lower bound and step of every code 1..=124
pub fn movement(code: u8) -> (f64, f64) {
    match code {
        1 => (0.0, 0.125),
        2..=8 => (0.125 + (code - 2) as f64 * 0.125, 0.125),
        9..=12 => (1.0 + (code - 9) as f64 * 0.25, 0.25),
        13..=38 => (2.0 + (code - 13) as f64 * 0.5, 0.5),
        39..=93 => (15.0 + (code - 39) as f64, 1.0),
        94..=108 => (70.0 + (code - 94) as f64 * 2.0, 2.0),
        109..=123 => (100.0 + (code - 109) as f64 * 5.0, 5.0),
        _ => (175.0, 5.0),
    }
}

fn surface(cx: &Cx) {
    for tc in 5..=8u8 {
        for mov in 1..=124u8 {
            let (lo, step) = movement(mov);
            for f in carriers(&me_bds06(tc, mov, mov & 1, 64 + (mov & 63), (mov >> 1) & 1, (mov >> 2) & 1, 1000, 2000)) {
            if let Some(j) = dj(cx, "surface:movement", &f) {
                // any speed of the code's interval [lo, lo+step) is within one step of a correct answer
                let g = j["groundspeed"].as_f64();
                match g {
                    Some(g) if g >= lo - 1e-9 && g <= lo + step + 1e-9 => {
                        cx.reported.fetch_add(1, Ordering::Relaxed);
                    }
                    _ => bad(cx, "surface:movement", format!("movement code {mov} stands for {lo}..{} kt, decoded as {:?}", lo + step, g), &f, json!({"lo": lo, "step": step})),
                }
            }
            }
        }
        for trk in 0..128u8 {
            for f in carriers(&me_bds06(tc, 20 + (trk & 63), 1, trk, trk & 1, (trk >> 1) & 1, 1000, 2000)) {
                if let Some(j) = dj(cx, "surface:track", &f) {
                    num(cx, "surface:track", &j, &["track"], trk as f64 * 360.0 / 128.0, 1e-9, &f);
                }
            }
        }
        // the joint domain: every track code under every movement code (0 = no movement information, 1 = stopped,
        // 124 = the fastest): the track is a field of its own and is transmitted whatever the speed is
        for mov in 0..=124u8 {
            for trk in 0..128u8 {
                let me = me_bds06(tc, mov, 1, trk, (trk ^ mov) & 1, (trk >> 1) & 1, 1000, 2000);
                let all = carriers(&me);
                let pick = if mov <= 2 || mov >= 123 { &all[..] } else { &all[..1] };
                for f in pick {
                    if let Some(j) = dj(cx, "surface:track", f) {
                        num(cx, "surface:track", &j, &["track"], trk as f64 * 360.0 / 128.0, 1e-9, f);
                    }
                }
            }
        }
    }
    cx.rep.part("surface", cx.n.load(Ordering::Relaxed), json!({}));
}

fn bds62(cx: &Cx) {
    for v in (0..=65400u32).step_by(100) {
        let code = ((v as f64 / 32.0).round() as u16) + 1;
        for (src, modes) in [(0u8, 0u8), (1, 0xff), (1, 0x80)] {
            for f in carriers(&me_bds62(1, src, code, 300, 1, 100, 9, 1, 3, modes)) {
                if let Some(j) = dj(cx, "bds62:selected_altitude", &f) {
                    if v == 0 && j["selected_altitude"].is_null() {
                        continue; // 0 ft may be reported unavailable
                    }
                    num(cx, "bds62:selected_altitude", &j, &["selected_altitude"], v as f64, 32.0, &f);
                }
            }
        }
    }
    for q in 1..=511u16 {
        for (src, hs, modes) in [(0u8, 1u8, 0u8), (1, 0, 0xff), (0, 1, 0xc1)] {
            for f in carriers(&me_bds62(1, src, 1000 + (q & 255), q, hs, 100, (q & 15) as u8, 1, 3, modes)) {
                if let Some(j) = dj(cx, "bds62:qnh", &f) {
                    num(cx, "bds62:qnh", &j, &["barometric_setting"], 800.0 + (q as f64 - 1.0) * 0.8, 1e-3, &f);
                }
            }
        }
    }
    for h in 0..512u16 {
        for modes in [0u8, 0xff] {
            for f in carriers(&me_bds62(1, (h & 1) as u8, 1000, 300 + (h & 127), 1, h, 9, 1, 3, modes)) {
                if let Some(j) = dj(cx, "bds62:heading", &f) {
                    num(cx, "bds62:heading", &j, &["selected_heading"], h as f64 * 180.0 / 256.0, 1e-4, &f);
                }
            }
        }
    }
    cx.rep.part("BDS 6,2", cx.n.load(Ordering::Relaxed), json!({}));
}

/// A DF20 / DF21 reply carrying `mb` under the thread's header context. The header is context for the payload
/// readers (flight status, downlink request, and the altitude that decides whether the payload may be labelled
/// BDS 0,5): with the adversarial altitude the header carries exactly the altitude that the payload would hold if
/// it were read as an airborne position.
fn commb_frame(df: u8, mb: &[u8; 7]) -> Vec<u8> {
    let (fs, dr, um, adversarial) = HDR.with(|h| h.get());
    let mut code = if df == 20 { ac13_q(35000) } else { id13(1, 2, 3, 4) };
    if adversarial && df == 20 {
        let ac12 = ((mb[1] as u16) << 4) | (mb[2] >> 4) as u16;
        code = ((ac12 & 0xfc0) << 1) | (ac12 & 0x3f);
    }
    df20_21(df, fs, dr, um, code, mb, ADDR)
}

fn bds40(cx: &Cx) {
    for df in [20u8, 21] {
        for v in (0..=45000u32).step_by(100) {
            let code = (v as f64 / 16.0).round() as u32;
            for which in 0..2 {
                let mb = if which == 0 { mb_bds40(Some(code), None, Some(2132), None, None) } else { mb_bds40(None, Some(code), Some(2132), None, None) };
                let f = commb_frame(df, &mb);
                if let Some(j) = dj(cx, "bds40:selected", &f) {
                    num(cx, "bds40:selected", &j, &["bds40", if which == 0 { "selected_mcp" } else { "selected_fms" }], v as f64, 16.0, &f);
                }
            }
        }
        for q in 0..4096u32 {
            for (modes, source) in [(None, None), (Some(5), Some(3)), (Some(0), Some(1))] {
                let f = commb_frame(df, &mb_bds40(Some(2000), if q & 1 == 0 { Some(2000) } else { None }, Some(q), modes, source));
                if let Some(j) = dj(cx, "bds40:qnh", &f) {
                    num(cx, "bds40:qnh", &j, &["bds40", "barometric_setting"], 800.0 + q as f64 * 0.1, 1e-6, &f);
                }
            }
        }
    }
    if !cx.quiet {
        cx.rep.part("BDS 4,0", cx.n.load(Ordering::Relaxed), json!({}));
    }
}

/// compare one register member; `inside`: the payload is inside the plausibility
/// envelope, so the register must be reported; otherwise: if reported, then correct
fn member(cx: &Cx, class: &str, j: &Value, reg: &str, key: &str, want: f64, tol: f64, inside: bool, f: &[u8]) {
    if j[reg].is_null() {
        if inside {
            bad(cx, &format!("{class}:not-reported"), format!("{reg} with {key}={want} (inside the plausibility envelope) is not reported for frame {}", hexs(f)), f, json!({"reg": reg, "key": key, "want": want}));
        }
        return;
    }
    let g = j[reg][key].as_f64();
    match g {
        Some(g) if (g - want).abs() <= tol || (key == "track" || key == "heading") && ((g - want).abs() - 360.0).abs() <= tol => {
            cx.reported.fetch_add(1, Ordering::Relaxed);
        }
        _ => bad(cx, class, format!("{reg}.{key} encoded as {want}, decoded as {:?} (frame {})", g, hexs(f)), f, json!({"reg": reg, "key": key, "want": want, "tol": tol})),
    }
}

fn signed(code: u32, width: u32) -> f64 {
    let half = 1u32 << (width - 1);
    if code >= half {
        code as f64 - (half as f64) * 2.0
    } else {
        code as f64
    }
}

fn bds50(cx: &Cx) {
    for df in [20u8, 21] {
        // roll: every 10-bit code, track rate small and of the same sign
        for c in 0..1024u32 {
            let roll = signed(c, 10) * 45.0 / 256.0;
            let rate = if roll > 0.0 { 4 } else if roll < 0.0 { twos(-4, 10) } else { 0 };
            let f = commb_frame(df, &mb_bds50(Some(c), Some(100), Some(220), Some(rate), Some(225)));
            if let Some(j) = dj(cx, "bds50:roll", &f) {
                member(cx, "bds50:roll", &j, "bds50", "roll", roll, 1e-9, roll.abs() <= 45.0, &f);
            }
        }
        // true track: every 11-bit code
        for c in 0..2048u32 {
            let trk = (signed(c, 11) * 90.0 / 512.0).rem_euclid(360.0);
            let f = commb_frame(df, &mb_bds50(Some(10), Some(c), Some(220), Some(4), Some(225)));
            if let Some(j) = dj(cx, "bds50:track", &f) {
                member(cx, "bds50:track", &j, "bds50", "track", trk, 1e-9, true, &f);
            }
        }
        // ground speed: every code, TAS kept as close as its own range allows
        for c in 0..1024u32 {
            let gs = c as f64 * 2.0;
            let tas_code = c.clamp(50, 240);
            let f = commb_frame(df, &mb_bds50(Some(10), Some(100), Some(c), Some(4), Some(tas_code)));
            if let Some(j) = dj(cx, "bds50:groundspeed", &f) {
                let inside = gs <= 550.0 && (gs - tas_code as f64 * 2.0).abs() <= 150.0;
                member(cx, "bds50:groundspeed", &j, "bds50", "groundspeed", gs, 0.0, inside, &f);
            }
        }
        // track rate: every 10-bit code (roll of the same sign); the all-ones magnitude is "no data"
        for c in 0..1024u32 {
            if c & 0x1ff == 0x1ff {
                continue;
            }
            let rate = signed(c, 10) * 8.0 / 256.0;
            let roll = if rate > 0.0 { 20 } else if rate < 0.0 { twos(-20, 10) } else { 0 };
            let f = commb_frame(df, &mb_bds50(Some(roll), Some(100), Some(220), Some(c), Some(225)));
            if let Some(j) = dj(cx, "bds50:track_rate", &f) {
                member(cx, "bds50:track_rate", &j, "bds50", "track_rate", rate, 1e-9, true, &f);
            }
        }
        // true airspeed: every code
        for c in 0..1024u32 {
            let tas = c as f64 * 2.0;
            let gs_code = c.clamp(0, 275);
            let f = commb_frame(df, &mb_bds50(Some(10), Some(100), Some(gs_code), Some(4), Some(c)));
            if let Some(j) = dj(cx, "bds50:TAS", &f) {
                let inside = (100.0..=480.0).contains(&tas) && (gs_code as f64 * 2.0 - tas).abs() <= 150.0;
                member(cx, "bds50:TAS", &j, "bds50", "TAS", tas, 0.0, inside, &f);
            }
        }
    }
    if !cx.quiet {
        cx.rep.part("BDS 5,0", cx.n.load(Ordering::Relaxed), json!({}));
    }
}

/// a Mach code that is plausible for an indicated airspeed (about FL250 in ISA)
fn mach_for(ias: f64) -> u32 {
    let m = (ias / 661.5 * 1.6).clamp(0.2, 0.9);
    (m / 0.004).round() as u32
}

fn bds60(cx: &Cx) {
    for df in [20u8, 21] {
        for c in 0..2048u32 {
            let hdg = (signed(c, 11) * 90.0 / 512.0).rem_euclid(360.0);
            let f = commb_frame(df, &mb_bds60(Some(c), Some(280), Some(mach_for(280.0)), Some(5), Some(6)));
            if let Some(j) = dj(cx, "bds60:heading", &f) {
                member(cx, "bds60:heading", &j, "bds60", "heading", hdg, 1e-9, true, &f);
            }
        }
        for c in 0..1024u32 {
            let ias = c as f64;
            let f = commb_frame(df, &mb_bds60(Some(200), Some(c), Some(mach_for(ias)), Some(5), Some(6)));
            if let Some(j) = dj(cx, "bds60:IAS", &f) {
                member(cx, "bds60:IAS", &j, "bds60", "IAS", ias, 0.0, (100.0..=450.0).contains(&ias), &f);
            }
        }
        for c in 0..1024u32 {
            let mach = c as f64 * 2.048 / 512.0;
            let ias = (mach * 661.5 / 1.6).clamp(100.0, 450.0).round();
            let f = commb_frame(df, &mb_bds60(Some(200), Some(ias as u32), Some(c), Some(5), Some(6)));
            if let Some(j) = dj(cx, "bds60:Mach", &f) {
                let inside = (0.25..=0.9).contains(&mach) && mach_for(ias).abs_diff(c) <= 2;
                member(cx, "bds60:Mach", &j, "bds60", "Mach", mach, 1e-9, inside, &f);
            }
        }
        // joint domain: every IAS 100..=450 kt x every Mach code between the ISA value at sea level (FL100 above
        // 250 kt), +3 %, and the ISA value at FL350, -3 %, capped at 0.9: must be reported, both values equal
        if df == 20 {
            for ias in (100..=450u32).step_by(1) {
                let cas = ias as f64;
                let qc = (1.0 + 0.2 * (cas / 661.4786).powi(2)).powf(3.5) - 1.0; // impact pressure / P0
                let mach_at = |delta: f64| (5.0 * ((qc / delta + 1.0).powf(2.0 / 7.0) - 1.0)).sqrt();
                // above 250 kt the aircraft is taken to be above FL100 (the speed limit below it is what the
                // decoder's documented plausibility rule relies on)
                let floor = if ias > 250 { 0.6877 } else { 1.0 };
                let (lo, hi) = (mach_at(floor) * 1.03, (mach_at(0.2353) * 0.97).min(0.9));
                let (clo, chi) = ((lo / 0.004).ceil() as u32, (hi / 0.004).floor() as u32);
                for c in clo..=chi {
                    let f = commb_frame(df, &mb_bds60(Some(200), Some(ias), Some(c), Some(5), Some(6)));
                    if let Some(j) = dj(cx, "bds60:IASxMach", &f) {
                        member(cx, "bds60:IASxMach", &j, "bds60", "Mach", c as f64 * 0.004, 1e-9, true, &f);
                        member(cx, "bds60:IASxMach", &j, "bds60", "IAS", cas, 0.0, true, &f);
                    }
                }
            }
        }
        for which in 0..2 {
            for c in 0..1024u32 {
                if c & 0x1ff == 0x1ff || c & 0x1ff == 0 {
                    continue; // all-zero / all-one magnitudes are treated as "0 ft/min" by design of the register readers
                }
                let rate = signed(c, 10) * 32.0;
                let mb = if which == 0 { mb_bds60(Some(200), Some(280), Some(mach_for(280.0)), Some(c), Some(6)) } else { mb_bds60(Some(200), Some(280), Some(mach_for(280.0)), Some(5), Some(c)) };
                let f = commb_frame(df, &mb);
                if let Some(j) = dj(cx, "bds60:vertical", &f) {
                    member(cx, "bds60:vertical", &j, "bds60", if which == 0 { "vrate_barometric" } else { "vrate_inertial" }, rate, 0.0, rate.abs() <= 5000.0, &f);
                }
            }
        }
    }
    if !cx.quiet {
        cx.rep.part("BDS 6,0", cx.n.load(Ordering::Relaxed), json!({}));
    }
}

/// DF20 payload labelled BDS 0,5 only when its altitude equals the header's
fn df20_as_bds05(cx: &Cx) {
    let r = RefAlt::new();
    let me_alt = |code: u16| -> Option<i32> { r.ac13(((code & 0xfc0) << 1) | (code & 0x3f)).ok().flatten() };
    let hdr_alt = |code: u16| -> Option<i32> { r.ac13(code).ok().flatten() };
    let judge = |me_code: u16, hdr: u16| {
      for tc in [11u8, 9, 18, 20, 21, 22] {
        let f = df20_21(20, 0, 0, 0, hdr, &me_bds05(tc, 0, 0, me_code, 0, 0, 93000, 51372), ADDR);
        if let Some(j) = dj(cx, "bds05-in-DF20", &f) {
            if !j["bds05"].is_null() {
                let (a, b) = (me_alt(me_code), hdr_alt(hdr));
                if a.is_none() || a != b {
                    bad(cx, "bds05-in-DF20", format!("DF20 with header altitude {:?} ft labels a payload with altitude {:?} ft as BDS 0,5 (frame {})", b, a, hexs(&f)), &f, json!({"me": a, "header": b}));
                } else {
                    cx.reported.fetch_add(1, Ordering::Relaxed);
                }
            }
        }
      }
    };
    let jobs = std::sync::Mutex::new(Vec::<(u16, u16)>::new());
    let judge_later = |me_code: u16, hdr: u16| jobs.lock().unwrap().push((me_code, hdr));
    for me_code in 0..4096u16 {
        let c13 = ((me_code & 0xfc0) << 1) | (me_code & 0x3f);
        let mut hdrs = vec![c13, 0, c13 | 0x40, c13 ^ 1, c13 ^ 0x20, c13 ^ 0x80];
        if let Some(a) = me_alt(me_code) {
            // the other encoding of the same altitude, and the neighbouring steps
            for d in [-100, -75, -50, -25, 0, 25, 50, 75, 100] {
                let v = a + d;
                if v % 25 == 0 && (-1000..=50175).contains(&v) {
                    hdrs.push(ac13_q(v));
                }
                if let Some((c, _)) = r.by_field.iter().find(|(_, x)| **x == v) {
                    hdrs.push(*c);
                }
            }
        }
        for h in hdrs {
            judge_later(me_code, h & 0x1fff);
        }
    }
    for me_code in [ac12_q(35000), ac12_q(0), ac12_q(-1000), 0x000, 0xfff, 0x7ef, 0x010, 0x011] {
        for h in 0..8192u16 {
            judge_later(me_code, h);
        }
    }
    let jobs = jobs.into_inner().unwrap();
    par_ranges(16, jobs.len() as u64, 256, |lo, hi| {
        for (m, h) in &jobs[lo as usize..hi as usize] {
            judge(*m, *h);
        }
    });
    // headers coded in metres (M bit set): whatever altitude the decoder reports for the header, a payload is an
    // airborne position only if it carries exactly that altitude - so the 25-ft steps around it must not be labelled
    par_ranges(16, 4096, 64, |lo, hi| {
        for k in lo..hi {
            let hdr = (((k & 0xfc0) << 1) | 0x40 | (k & 0x3f)) as u16;
            let f0 = df20_21(20, 0, 0, 0, hdr, &[0u8; 7], ADDR);
            let Some(j0) = dj(cx, "bds05-in-DF20", &f0) else { continue };
            let Some(h) = j0["altitude"].as_i64() else { continue };
            let base = h.div_euclid(25) * 25;
            for v in [base - 50, base - 25, base, base + 25, base + 50] {
                if !(-1000..=50175).contains(&v) {
                    continue;
                }
                let f = df20_21(20, 0, 0, 0, hdr, &me_bds05(11, 0, 0, ac12_q(v as i32), 0, 0, 93000, 51372), ADDR);
                if let Some(j) = dj(cx, "bds05-in-DF20", &f) {
                    if !j["bds05"].is_null() && v != h {
                        bad(cx, "bds05-in-DF20", format!("DF20 whose metric header reads {h} ft labels a payload with altitude {v} ft as BDS 0,5 (frame {})", hexs(&f)), &f, json!({"me": v, "header": h}));
                    }
                }
            }
        }
    });
    cx.rep.part("BDS 0,5 in DF20", cx.n.load(Ordering::Relaxed), json!({}));
}

pub fn run(ctx: &Ctx, rep: &Report) {
    rep.set_rule("every code of every listed field is encoded into a frame by the reference builder and read back from the decoder's JSON; non-trivial = comparisons in which the decoder reported the value");
    rep.assume("sentinel codes (0 = no information, status bit clear, all-ones track-rate magnitude, all-zero / all-one vertical-rate magnitudes in BDS 6,0) and supersonic velocity subtypes are not in the property's quantifier");
    rep.assume("altitudes < 0 ft or above 65,535 ft may be reported unavailable (0 ft too where the result is a bare u16); selected altitudes are encoded from the 100-ft grid by rounding to the nearest step");
    rep.assume("BDS 5,0 / 6,0: inside a conservative plausibility envelope (|roll| <= 45 deg, gs <= 550 kt, TAS 100-480 kt within 150 kt of gs, IAS 100-450 kt with Mach consistent with ISA, |vertical rate| <= 5000 ft/min) the register must be reported; outside it only 'if reported, then correct'");
    let cx = Cx { rep, n: AtomicU64::new(0), reported: AtomicU64::new(0), quiet: false, thin: 1, seq: AtomicU64::new(0) };
    addresses(ctx, &cx);
    callsigns(&cx);
    altitudes(&cx);
    squawks(&cx);
    velocities(ctx, &cx);
    surface(&cx);
    bds62(&cx);
    bds40(&cx);
    bds50(&cx);
    bds60(&cx);
    df20_as_bds05(&cx);
    // the Comm-B registers again under every other header context: all flight statuses, all downlink requests, two
    // utility messages, and the adversarial header altitude (one context per worker thread at a time)
    {
        let mut contexts: Vec<(u8, u8, u8, bool)> = Vec::new();
        contexts.extend((1..8u8).map(|fs| (fs, 0, 0, false)));
        contexts.extend((1..32u8).map(|dr| (0, dr, 0, false)));
        contexts.extend([(0, 0, 1, false), (0, 0, 0x3f, false), (0, 0, 0, true), (5, 4, 0x15, true)]);
        let before = cx.n.load(Ordering::Relaxed);
        par_items(ctx.threads, contexts.len(), |i| {
            HDR.with(|h| h.set(contexts[i]));
            let c2 = Cx { rep, n: AtomicU64::new(0), reported: AtomicU64::new(0), quiet: true, thin: if ctx.thorough() { 1 } else { 7 }, seq: AtomicU64::new(i as u64) };
            bds40(&c2);
            bds50(&c2);
            bds60(&c2);
            HDR.with(|h| h.set((0, 0, 0, false)));
            cx.n.fetch_add(c2.n.load(Ordering::Relaxed), Ordering::Relaxed);
            cx.reported.fetch_add(c2.reported.load(Ordering::Relaxed), Ordering::Relaxed);
        });
        rep.part("BDS 4,0 / 5,0 / 6,0 under every other header context (FS 1..7, DR 1..31, UM, adversarial altitude)", cx.n.load(Ordering::Relaxed) - before, json!({"contexts": contexts.len(), "every_nth_frame": if ctx.thorough() { 1 } else { 7 }}));
    }
    let n = cx.n.load(Ordering::Relaxed);
    let ok = cx.reported.load(Ordering::Relaxed);
    rep.outcome("value reported and equal", ok);
    rep.outcome("frames decoded", n);
    let ex = df17(5, ADDR, &me_bds09_gs(1, 0, 0, 0, 1, 101, 0, 201, 0, 1, 11, 0, 5), 0);
    rep.sample(json!({"frame": hexs(&ex), "encoded": {"ew_kt": -100, "ns_kt": 200, "vertical_rate": -640}, "decoded": Message::try_from(ex.as_slice()).ok().and_then(|m| serde_json::to_value(&m).ok())}));
    rep.eval(n);
    rep.trans(n);
    rep.state(n);
    rep.nontriv(ok);
    rep.set_bound(if ctx.thorough() {
        "all 2^24 addresses in DF11, every code of every listed field (all 2046^2 ground-velocity sign/magnitude pairs)"
    } else {
        "address windows, every code of every listed field; ground-velocity pairs on a 73x73 grid per sign combination (all boundaries included)"
    });
    if !ctx.thorough() {
        rep.not_exhaustive("quick tier: DF11 addresses on 16-bit windows, ground-velocity pairs on a grid");
    }
}

pub fn replay(w: &Value, rep: &Report) {
    // a replay re-runs the family the witness belongs to on its single frame:
    // decode and show what is reported; the full comparison needs the encoded
    // value, which the witness carries in `expect`
    let f = unhex(w["frame"].as_str().unwrap_or(""));
    let cx = Cx { rep, n: AtomicU64::new(0), reported: AtomicU64::new(0), quiet: false, thin: 1, seq: AtomicU64::new(0) };
    let field = w["field"].as_str().unwrap_or("replay").to_string();
    if let Some(j) = dj(&cx, &field, &f) {
        let e = &w["expect"];
        if let (Some(path), Some(want)) = (e["path"].as_array(), e["want"].as_f64()) {
            let p: Vec<&str> = path.iter().filter_map(|x| x.as_str()).collect();
            num(&cx, &field, &j, &p, want, e["tol"].as_f64().unwrap_or(0.0), &f);
        } else if let (Some(path), Some(want)) = (e["path"].as_array(), e["want"].as_str()) {
            let p: Vec<&str> = path.iter().filter_map(|x| x.as_str()).collect();
            text(&cx, &field, &j, &p, want, &f);
        } else if let (Some(reg), Some(key), Some(want)) = (e["reg"].as_str(), e["key"].as_str(), e["want"].as_f64()) {
            member(&cx, &field, &j, reg, key, want, e["tol"].as_f64().unwrap_or(0.0), true, &f);
        } else if let (Some(lo), Some(step)) = (e["lo"].as_f64(), e["step"].as_f64()) {
            let g = j["groundspeed"].as_f64();
            if !matches!(g, Some(g) if g >= lo - 1e-9 && g <= lo + step + 1e-9) {
                bad(&cx, &field, format!("movement stands for {lo}..{} kt, decoded as {g:?}", lo + step), &f, e.clone());
            }
        } else {
            rep.note("decoded", j);
        }
    }
    rep.trans(1);
    rep.state(1);
    rep.sample(w.clone());
    rep.outcome("replayed", 1);
}

//! C08 — physical ranges: the shared frame space with the oracle "every
//! reported quantity lies in its physical domain", evaluated on the JSON of
//! every accepted frame and of every accepted direct register call.

use crate::common::*;
use crate::frames::*;
use crate::fspace::{self, Decoded, RegOut, Visitor};
use serde_json::{json, Value};
use std::collections::BTreeMap;
use std::sync::Mutex;

pub struct V<'a> {
    pub rep: &'a Report,
    /// (context, key) -> (min, max, count) of the numbers seen
    pub seen: Mutex<BTreeMap<String, (f64, f64, u64)>>,
}

const CALLSIGN_CHARS: &str = "ABCDEFGHIJKLMNOPQRSTUVWXYZ0123456789 #";

/// the rule for a numeric member `key` inside an object whose "bds" member is `bds`
/// (or "" at the top level); None = not a quantity named by the property
fn rule(bds: &str, key: &str, x: f64) -> Option<Result<(), String>> {
    let within = |lo: f64, hi: f64| if x >= lo && x <= hi { Ok(()) } else { Err(format!("{x} outside [{lo}, {hi}]")) };
    let angle = || if (0.0..360.0).contains(&x) { Ok(()) } else { Err(format!("{x} outside [0, 360)")) };
    let speed = || if x >= 0.0 { Ok(()) } else { Err(format!("{x} is negative")) };
    Some(match key {
        "track" | "heading" | "wind_direction" | "selected_heading" | "threat_bearing" => angle(),
        "roll" => within(-90.0, 90.0),
        "lat_cpr" | "lon_cpr" => within(0.0, 131071.0),
        "vertical_rate" => {
            if x.abs() <= 32640.0 && x % 64.0 == 0.0 {
                Ok(())
            } else {
                Err(format!("{x} is not a multiple of 64 within +-32640"))
            }
        }
        "vrate_barometric" | "vrate_inertial" => {
            if x.abs() <= 16352.0 && x % 32.0 == 0.0 {
                Ok(())
            } else {
                Err(format!("{x} is not a multiple of 32 within +-16352"))
            }
        }
        "groundspeed" | "IAS" | "TAS" | "airspeed" | "wind_speed" => speed(),
        "Mach" => {
            if x > 0.0 && x <= 1.0 {
                Ok(())
            } else {
                Err(format!("{x} outside (0, 1]"))
            }
        }
        "humidity" => within(0.0, 100.0),
        "temperature" | "static_temperature" | "static_air_temperature" => within(-80.0, 60.0),
        _ => {
            let _ = bds;
            return None;
        }
    })
}

fn walk(v: &Value, bds: &str, path: &str, out: &mut Vec<(String, String)>, seen: &mut BTreeMap<String, (f64, f64, u64)>) {
    match v {
        Value::Object(m) => {
            let here = m.get("bds").and_then(|x| x.as_str()).unwrap_or(bds).to_string();
            for (k, x) in m {
                match x {
                    Value::Number(n) => {
                        let f = n.as_f64().unwrap_or(f64::NAN);
                        let e = seen.entry(format!("{here}.{k}")).or_insert((f, f, 0));
                        e.0 = e.0.min(f);
                        e.1 = e.1.max(f);
                        e.2 += 1;
                        if !f.is_finite() {
                            out.push((format!("non-finite:{here}.{k}"), format!("{path}{k} = {n}")));
                        }
                        if let Some(Err(why)) = rule(&here, k, f) {
                            out.push((format!("range:{here}.{k}"), format!("{path}{k}: {why}")));
                        }
                    }
                    Value::String(s) => {
                        if k == "squawk" && !(s.len() == 4 && s.chars().all(|c| ('0'..='7').contains(&c))) {
                            out.push((format!("squawk:{here}"), format!("{path}squawk = {s:?} is not four octal digits")));
                        }
                        if k == "callsign" && !s.chars().all(|c| CALLSIGN_CHARS.contains(c)) {
                            out.push((format!("callsign:{here}"), format!("{path}callsign = {s:?} has a character outside the 6-bit set")));
                        }
                    }
                    Value::Null => {}
                    other => walk(other, &here, &format!("{path}{k}."), out, seen),
                }
            }
        }
        Value::Array(a) => {
            for x in a {
                walk(x, bds, path, out, seen);
            }
        }
        _ => {}
    }
}

impl V<'_> {
    fn judge(&self, j: &Value, witness: Value, what: &str) {
        let mut out = Vec::new();
        let mut local = BTreeMap::new();
        walk(j, "", "", &mut out, &mut local);
        for (class, why) in out {
            self.rep.violation(&class, format!("{what}: {why}"), witness.clone());
        }
        let mut g = self.seen.lock().unwrap();
        for (k, (lo, hi, n)) in local {
            let e = g.entry(k).or_insert((lo, hi, 0));
            e.0 = e.0.min(lo);
            e.1 = e.1.max(hi);
            e.2 += n;
        }
    }
}

/// serde_json writes non-finite floats as null: probe the message itself as well
fn nonfinite(msg: &rs1090::decode::Message) -> Option<String> {
    use serde::Serialize;
    match msg.serialize(crate::c07::FiniteCheck) {
        Err(e) if e.0.starts_with("non-finite:") => Some(e.0),
        _ => None,
    }
}

impl Visitor for V<'_> {
    fn frame(&self, _group: &str, bytes: &[u8], r: &Decoded) {
        if let Ok(Ok(msg)) = r {
            let wit = json!({"frame": hexs(bytes)});
            if let Some(e) = nonfinite(msg) {
                self.rep.violation(&format!("non-finite:{}", e.split('@').nth(1).unwrap_or("")), format!("frame {} reports a non-finite number ({e})", hexs(bytes)), wit.clone());
            }
            if let Ok(Ok(j)) = guarded(|| serde_json::to_value(msg)) {
                self.judge(&j, wit, &format!("frame {}", hexs(bytes)));
            }
        }
    }
    fn register(&self, name: &str, mb: &[u8; 7], r: &RegOut) {
        if let Ok(Some((j, _))) = r {
            self.judge(j, json!({"register": name, "mb": hexs(mb)}), &format!("{name} on {}", hexs(mb)));
        }
    }
}

pub fn run(ctx: &Ctx, rep: &Report) {
    rep.set_rule("every accepted frame / register call of the shared frame space (C01) including the joint sweeps of sign/magnitude pairs; non-trivial = accepted inputs; every numeric member named by the property is judged, all numbers for finiteness");
    rep.assume("quantities are identified by their JSON member name inside the object tagged with the register (track, heading, roll, vertical_rate, Mach, ...); members the property does not name are only checked for finiteness");
    let v = V { rep, seen: Mutex::new(BTreeMap::new()) };
    let c = fspace::sweep(ctx, rep, &v, true);
    let frames = c.frames.load(std::sync::atomic::Ordering::Relaxed);
    let accepted = c.accepted.load(std::sync::atomic::Ordering::Relaxed);
    let regs = c.reg_calls.load(std::sync::atomic::Ordering::Relaxed);
    let regacc = c.reg_accepted.load(std::sync::atomic::Ordering::Relaxed);
    let seen = v.seen.lock().unwrap();
    let mut obs = serde_json::Map::new();
    let mut judged = 0u64;
    for (k, (lo, hi, n)) in seen.iter() {
        let key = k.split('.').nth(1).unwrap_or("");
        let is_judged = rule("", key, 0.0).is_some();
        if is_judged {
            judged += 1;
            rep.outcome(&format!("{k} in [{lo}, {hi}]"), *n);
        }
        obs.insert(k.clone(), json!({"min": lo, "max": hi, "count": n, "judged": is_judged}));
    }
    rep.note("observed_numeric_members", Value::Object(obs));
    // every quantity named by the property must have been observed (vacuity guard)
    for want in ["track", "heading", "wind_direction", "roll", "lat_cpr", "lon_cpr", "vertical_rate", "vrate_barometric", "vrate_inertial", "groundspeed", "IAS", "TAS", "Mach", "humidity", "temperature"] {
        if !seen.keys().any(|k| k.split('.').nth(1) == Some(want)) {
            rep.not_exhaustive(&format!("no accepted input reported a member `{want}`"));
        }
    }
    rep.sample(json!({"frame": hexs(&df17(5, 0x4840d6, &me_bds09_gs(1, 0, 0, 0, 1, 5, 0, 200, 0, 1, 10, 0, 5), 0))}));
    rep.sample(json!({"register": "bds50", "mb": hexs(&fspace::exemplar("bds50"))}));
    rep.eval(frames + regs);
    rep.trans(accepted + regacc);
    rep.state(seen.len() as u64);
    rep.nontriv(accepted + regacc);
    let _ = judged;
    let p = fspace::plan(ctx);
    rep.set_bound(&format!("the frame space of C01: windows of {} bits (DF17), {} bits (DF18 cf {:?}), {} bits (registers), joint grids at step {}, complete per-field sweeps", p.w, p.w18, p.cfs, p.wreg, p.joint_step));
    if !ctx.thorough() {
        rep.not_exhaustive("quick tier: narrower windows, joint grids at step 8 (extremes always included)");
    }
}

pub fn replay(w: &Value, rep: &Report) {
    let v = V { rep, seen: Mutex::new(BTreeMap::new()) };
    if let Some(name) = w.get("register").and_then(|x| x.as_str()) {
        let b = unhex(w["mb"].as_str().unwrap_or(""));
        let mut mb = [0u8; 7];
        mb.copy_from_slice(&b[..7]);
        let r = fspace::call_register(name, &mb);
        v.register(name, &mb, &r);
    } else {
        let f = unhex(w["frame"].as_str().unwrap_or(""));
        let r = fspace::decode(&f);
        v.frame("replay", &f, &r);
    }
    rep.trans(1);
    rep.state(1);
    rep.sample(w.clone());
    rep.outcome("replayed", 1);
}

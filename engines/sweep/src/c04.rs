//! C04 — global CPR decoding over every code cell on Earth (factorised).

use crate::common::*;
use crate::cpr_ref::*;
use rs1090::decode::bds::bds05::AirbornePosition;
use rs1090::decode::cpr::{airborne_position, Position};
use serde_json::{json, Value};
use std::sync::atomic::{AtomicU64, Ordering};
use std::sync::Mutex;

const DEG_M: f64 = EARTH_R_M * std::f64::consts::PI / 180.0;
const TOL_M: f64 = 10.0;

fn tie_key(a: i64) -> u64 {
    (a as u64).wrapping_mul(0x9e37_79b9_7f4a_7c15)
}

fn call(te: &AirbornePosition, to: &AirbornePosition, ye: u32, xe: u32, yo: u32, xo: u32, latest_odd: bool) -> Result<Option<Position>, String> {
    let mut e = *te;
    e.lat_cpr = ye;
    e.lon_cpr = xe;
    let mut o = *to;
    o.lat_cpr = yo;
    o.lon_cpr = xo;
    set_case(4, ((ye as u64) << 32) | xe as u64, ((yo as u64) << 32) | xo as u64, latest_odd as u64);
    guarded(|| if latest_odd { airborne_position(&e, &o) } else { airborne_position(&o, &e) })
}

#[derive(Clone, Copy, Debug)]
struct LatCell {
    a: i64,
    b: i64,
    k0: i64,
    k1: i64,
    nl0: u32,
    nl1: u32,
}

fn lat_cell(a: i64, b: i64) -> LatCell {
    let (k0, k1) = lat_index(a);
    LatCell { a, b, k0, k1, nl0: ref_nl_grid(0, k0), nl1: ref_nl_grid(1, k1) }
}

/// Distance in metres from a decoded point to the worst corner of a cell.
fn worst_corner_m(lat: f64, lon: f64, la: f64, lb: f64, oa: f64, ob: f64) -> f64 {
    let mut w: f64 = 0.0;
    for tl in [la, lb] {
        for to in [oa, ob] {
            let dlat = (lat - tl) * DEG_M;
            let dlon = ang_diff(lon, to) * DEG_M * tl.to_radians().cos().max(lat.to_radians().cos());
            let approx = (dlat * dlat + dlon * dlon).sqrt();
            let d = if approx > 5.0 { haversine_m(lat, lon, tl, to) } else { approx };
            w = w.max(d);
        }
    }
    w
}

/// Latitude part for one cell: returns (class, what) on violation; lat error in metres otherwise.
fn check_lat_cell(te: &AirbornePosition, to: &AirbornePosition, c: &LatCell, latest_odd: bool) -> Result<Option<f64>, (String, String)> {
    let u = lat_unit_deg(false);
    let (ye, yo) = (code17(c.k0), code17(c.k1));
    let order = if latest_odd { "even-then-odd" } else { "odd-then-even" };
    let same_band = c.nl0 == c.nl1;
    let backgrounds = [(0u32, 0u32), (70_000, 3_000), (131_071, 131_071)];
    let mut first: Option<Option<f64>> = None;
    for (xe, xo) in backgrounds {
        let r = call(te, to, ye, xe, yo, xo, latest_odd).map_err(|p| ("global:panic".to_string(), format!("airborne_position panicked ({order}, lat codes {ye}/{yo}): {p}")))?;
        let lat = r.map(|p| p.latitude);
        match &first {
            None => first = Some(lat),
            Some(f) => {
                if *f != lat {
                    return Err(("global:lat-depends-on-lon".into(), format!("latitude output for lat codes {ye}/{yo} ({order}) changes with the longitude codes: {f:?} vs {lat:?}")));
                }
            }
        }
        if let Some(p) = r {
            if !(p.longitude >= -180.0 && p.longitude < 180.0) || !p.latitude.is_finite() {
                return Err(("global:lon-range".into(), format!("lat codes {ye}/{yo} lon codes {xe}/{xo} ({order}): longitude {} outside [-180,180)", p.longitude)));
            }
        }
    }
    let lat = first.unwrap();
    let (la, lb) = (c.a as f64 * u, c.b as f64 * u);
    match lat {
        None => {
            if same_band {
                let near87 = c.nl0 <= 2;
                Err((if near87 { "global:none-in-same-band:NL<=2".to_string() } else { format!("global:none-in-same-band:NL={}", c.nl0) }, format!("true latitude in [{la:.7},{lb:.7}] (NL={} for both reports, {order}): no position returned", c.nl0)))
            } else {
                Ok(None)
            }
        }
        Some(l) => {
            if !(-90.0..=90.0).contains(&l) {
                return Err(("global:lat-range".into(), format!("lat codes {ye}/{yo} ({order}): latitude {l}")));
            }
            if !same_band {
                // a position in a mixed-band cell is judged by the caller with true longitudes
                return Ok(Some(f64::NAN));
            }
            let err = (l - la).abs().max((l - lb).abs()) * DEG_M;
            if err > TOL_M {
                let hemi = if c.a < 0 { "south" } else { "north" };
                return Err((format!("global:lat-error:{hemi}"), format!("true latitude in [{la:.7},{lb:.7}] ({order}) decoded as {l:.7}: {err:.1} m off")));
            }
            Ok(Some(err))
        }
    }
}

/// Mixed-band cell that returned a position: test with truly encoded longitudes.
fn check_mixed(te: &AirbornePosition, to: &AirbornePosition, c: &LatCell, latest_odd: bool, npts: u32) -> Option<(String, String)> {
    let u = lat_unit_deg(false);
    let (ye, yo) = (code17(c.k0), code17(c.k1));
    let (n_e, n_o) = (c.nl0 as i64, (c.nl1 as i64 - 1).max(1));
    for i in 0..npts {
        let lon = -180.0 + 360.0 * (i as f64 + 0.37) / npts as f64;
        let l360 = lon.rem_euclid(360.0);
        let xe = ((131072.0 * (l360 % (360.0 / n_e as f64)) / (360.0 / n_e as f64) + 0.5).floor() as i64).rem_euclid(TWO17) as u32;
        let xo = ((131072.0 * (l360 % (360.0 / n_o as f64)) / (360.0 / n_o as f64) + 0.5).floor() as i64).rem_euclid(TWO17) as u32;
        if let Ok(Some(p)) = call(te, to, ye, xe, yo, xo, latest_odd) {
            let lat_t = (c.a + c.b) as f64 * u / 2.0;
            let d = haversine_m(p.latitude, p.longitude, lat_t, lon);
            if d > TOL_M + 3.0 {
                return Some(("global:mixed-band-wrong-position".into(), format!("true position ({lat_t:.6},{lon:.6}): reports fall in bands NL={}/{} yet ({:.6},{:.6}) is returned, {:.0} m off", c.nl0, c.nl1, p.latitude, p.longitude, d)));
            }
        }
    }
    None
}

struct BandStat {
    max_lat_err: f64,
    worst_cell: Option<LatCell>,
    first: Option<LatCell>,
    last: Option<LatCell>,
    cells: u64,
}

pub fn run(ctx: &Ctx, rep: &Report) {
    let thorough = ctx.thorough();
    rep.set_rule("cells = maximal sets of true positions with identical (even, odd) code pairs, computed in exact integer arithmetic from the DO-260B encoder; every latitude cell and every longitude cell of every band is decoded by the real airborne_position in both orders; non-trivial = cells for which a position must be returned (both reports in the same NL band)");
    let te = airborne_template(false);
    let to = airborne_template(true);
    let u = lat_unit_deg(false);

    // ---- latitude pass: all cells, both orders --------------------------------
    // split [-L, L] at even-bin boundaries into chunks
    let nbins = 2 * LAT_MAX_U / 118 + 2;
    let stats: Mutex<Vec<BandStat>> = Mutex::new((0..240).map(|_| BandStat { max_lat_err: 0.0, worst_cell: None, first: None, last: None, cells: 0 }).collect());
    let mixed: Mutex<Vec<LatCell>> = Mutex::new(Vec::new());
    let ncell = AtomicU64::new(0);
    let nsame = AtomicU64::new(0);
    let nmixed_none = AtomicU64::new(0);
    let nmixed_some = AtomicU64::new(0);
    par_ranges(ctx.threads, nbins as u64, 4096, |lo, hi| {
        // chunks are cut at arbitrary positions: a cut splits one cell in two with identical codes (harmless)
        let a0 = (-LAT_MAX_U + 118 * lo as i64).min(LAT_MAX_U);
        let b0 = (-LAT_MAX_U + 118 * hi as i64).min(LAT_MAX_U);
        if a0 >= b0 {
            return;
        }
        let mut local: Vec<(usize, LatCell, f64)> = Vec::new();
        let mut bad = 0;
        let mut cnt = 0u64;
        let mut same = 0u64;
        for_cells(59, 60, a0, b0, |a, b| {
            if bad > 32 {
                return;
            }
            cnt += 1;
            let c = lat_cell(a, b);
            if c.nl0 == c.nl1 {
                same += 1;
            }
            for latest_odd in [true, false] {
                match check_lat_cell(&te, &to, &c, latest_odd) {
                    Err((cl, w)) => {
                        bad += 1;
                        rep.violation(&cl, w, json!({"kind":"lat","a":a,"b":b,"latest_odd":latest_odd}));
                    }
                    Ok(None) => {
                        nmixed_none.fetch_add(1, Ordering::Relaxed);
                    }
                    Ok(Some(e)) if e.is_nan() => {
                        nmixed_some.fetch_add(1, Ordering::Relaxed);
                        mixed.lock().unwrap().push(c);
                    }
                    Ok(Some(e)) => {
                        let idx = (c.nl0 as usize) * 4 + (if a < 0 { 2 } else { 0 }) + latest_odd as usize;
                        local.push((idx, c, e));
                    }
                }
            }
            // same parity never yields a position
            for (m1, m2, tag) in [(&te, &te, "even/even"), (&to, &to, "odd/odd")] {
                let mut x = *m1;
                x.lat_cpr = code17(c.k0);
                x.lon_cpr = 5;
                let mut y = *m2;
                y.lat_cpr = code17(c.k1);
                y.lon_cpr = 77;
                match guarded(|| airborne_position(&x, &y)) {
                    Err(p) => rep.violation("global:panic", format!("airborne_position panicked on a {tag} pair: {p}"), json!({"kind":"same","a":a,"b":b})),
                    Ok(Some(p)) => rep.violation("global:same-parity-position", format!("{tag} pair with lat codes {}/{} yields ({},{})", x.lat_cpr, y.lat_cpr, p.latitude, p.longitude), json!({"kind":"same","a":a,"b":b})),
                    Ok(None) => {}
                }
            }
        });
        ncell.fetch_add(cnt, Ordering::Relaxed);
        nsame.fetch_add(same, Ordering::Relaxed);
        let mut st = stats.lock().unwrap();
        for (idx, c, e) in local {
            let s = &mut st[idx];
            s.cells += 1;
            // ties are broken by a fixed scrambling of the position (an arbitrary but fixed cell inside the band) so that the choice does not depend on which worker finishes first
            if e > s.max_lat_err || (e == s.max_lat_err && s.worst_cell.is_some_and(|w| tie_key(c.a) > tie_key(w.a))) {
                s.max_lat_err = e;
                s.worst_cell = Some(c);
            }
            if s.first.map_or(true, |f| c.a.abs() < f.a.abs()) {
                s.first = Some(c);
            }
            if s.last.map_or(true, |f| c.a.abs() > f.a.abs()) {
                s.last = Some(c);
            }
        }
    });
    let ncells = ncell.load(Ordering::Relaxed);
    rep.eval(ncells * 2 * 3 + ncells * 2);
    rep.nontriv(nsame.load(Ordering::Relaxed));
    rep.state(ncells);
    let worst_lat = stats.lock().unwrap().iter().map(|s| s.max_lat_err).fold(0.0, f64::max);
    rep.part("latitude:all-cells×both-orders×3-lon-backgrounds(+same-parity)", ncells, json!({"same_band_cells": nsame.load(Ordering::Relaxed), "mixed_band_none": nmixed_none.load(Ordering::Relaxed), "mixed_band_position": nmixed_some.load(Ordering::Relaxed), "worst_lat_error_m": (worst_lat*1000.0).round()/1000.0}));
    rep.outcome("lat:same-band-position", nsame.load(Ordering::Relaxed) * 2);
    rep.outcome("lat:mixed-band-none", nmixed_none.load(Ordering::Relaxed));
    rep.outcome("lat:mixed-band-position", nmixed_some.load(Ordering::Relaxed));
    // mixed-band cells that returned a position
    {
        let m = mixed.lock().unwrap();
        for c in m.iter() {
            for latest_odd in [true, false] {
                if let Some((cl, w)) = check_mixed(&te, &to, c, latest_odd, 2048) {
                    rep.violation(&cl, w, json!({"kind":"mixed","a":c.a,"b":c.b,"latest_odd":latest_odd}));
                }
            }
            rep.eval(4096);
        }
    }
    if stopped() {
        return finish(rep, thorough);
    }

    // ---- longitude pass: every cell of every band -------------------------------
    let st = stats.lock().unwrap();
    let worst_lon_m = Mutex::new(0f64);
    let mut total_lon_cells = 0u64;
    for n in 1..=59i64 {
        let (n0, n1) = (n, (n - 1).max(1));
        let circle = n0 * n1 * (1i64 << 18);
        let w = 360.0 / circle as f64;
        for latest_odd in [true, false] {
            // representative latitude cells of this band: nearest to the equator, nearest to the pole and
            // the one with the largest latitude error, in both hemispheres
            let mut reps: Vec<LatCell> = Vec::new();
            for south in [0usize, 2] {
                let s = &st[(n as usize) * 4 + south + latest_odd as usize];
                let cands: Vec<Option<LatCell>> = if thorough { vec![s.first, s.last, s.worst_cell] } else { vec![s.first, s.worst_cell] };
                for c in cands.into_iter().flatten() {
                    if !reps.iter().any(|r| r.a == c.a) {
                        reps.push(c);
                    }
                }
            }
            if reps.is_empty() {
                rep.warn(format!("band NL={n}: no same-band latitude cell decoded, longitude cells not explored"));
                rep.exhaustive.store(false, Ordering::Relaxed);
                continue;
            }
            let nchunks = (n0 * TWO17) as u64; // even bins
            let cells = AtomicU64::new(0);
            par_ranges(ctx.threads, nchunks, 8192, |lo, hi| {
                let a0 = 2 * n1 * lo as i64;
                let b0 = (2 * n1 * hi as i64).min(circle);
                let mut bad = 0;
                let mut cnt = 0u64;
                let mut wl: f64 = 0.0;
                for_cells(n1, if n0 == n1 { 0 } else { n0 }, a0, b0, |a, b| {
                    if bad > 32 {
                        return;
                    }
                    cnt += 1;
                    let (i0, i1) = lon_index(a, n0, n1);
                    let (xe, xo) = (code17(i0), code17(i1));
                    let (oa, ob) = (a as f64 * w, b as f64 * w);
                    let mut first_lon: Option<f64> = None;
                    for c in &reps {
                        let (ye, yo) = (code17(c.k0), code17(c.k1));
                        match call(&te, &to, ye, xe, yo, xo, latest_odd) {
                            Err(p) => {
                                bad += 1;
                                rep.violation("global:panic", format!("airborne_position panicked: {p}"), json!({"kind":"lon","n":n,"a":a,"b":b,"latest_odd":latest_odd,"lat_a":c.a,"lat_b":c.b}));
                            }
                            Ok(None) => {
                                bad += 1;
                                rep.violation(&format!("global:none-in-same-band:lon:NL={n}"), format!("band NL={n}, true longitude in [{oa:.6},{ob:.6}], latitude cell [{:.6},{:.6}]: no position", c.a as f64 * u, c.b as f64 * u), json!({"kind":"lon","n":n,"a":a,"b":b,"latest_odd":latest_odd,"lat_a":c.a,"lat_b":c.b}));
                            }
                            Ok(Some(p)) => {
                                if !(p.longitude >= -180.0 && p.longitude < 180.0) {
                                    bad += 1;
                                    rep.violation("global:lon-range", format!("band NL={n}, lon codes {xe}/{xo}: longitude {} outside [-180,180)", p.longitude), json!({"kind":"lon","n":n,"a":a,"b":b,"latest_odd":latest_odd,"lat_a":c.a,"lat_b":c.b}));
                                    continue;
                                }
                                match first_lon {
                                    None => first_lon = Some(p.longitude),
                                    Some(f) => {
                                        if f != p.longitude {
                                            rep.warn(format!("factorisation: band NL={n} longitude output differs between representative latitudes ({f} vs {})", p.longitude));
                                            rep.exhaustive.store(false, Ordering::Relaxed);
                                        }
                                    }
                                }
                                let d = worst_corner_m(p.latitude, p.longitude, c.a as f64 * u, c.b as f64 * u, oa, ob);
                                wl = wl.max(d);
                                if d > TOL_M {
                                    bad += 1;
                                    let order = if latest_odd { "latest-odd" } else { "latest-even" };
                                    rep.violation(&format!("global:distance:NL={n}:{order}"), format!("true position in lat [{:.6},{:.6}] × lon [{oa:.6},{ob:.6}] (band NL={n}) decoded as ({:.6},{:.6}): {d:.1} m from a corner of the cell", c.a as f64 * u, c.b as f64 * u, p.latitude, p.longitude), json!({"kind":"lon","n":n,"a":a,"b":b,"latest_odd":latest_odd,"lat_a":c.a,"lat_b":c.b}));
                                }
                            }
                        }
                    }
                });
                cells.fetch_add(cnt, Ordering::Relaxed);
                rep.eval(cnt * reps.len() as u64);
                let mut g = worst_lon_m.lock().unwrap();
                *g = g.max(wl);
            });
            let nc = cells.load(Ordering::Relaxed);
            total_lon_cells += nc;
            rep.nontriv(nc);
            if stopped() {
                break;
            }
        }
        if stopped() {
            break;
        }
    }
    rep.state(total_lon_cells);
    rep.part("longitude:all-cells-of-all-59-bands×both-orders×representative-latitudes", total_lon_cells, json!({"worst_distance_to_cell_corner_m": (*worst_lon_m.lock().unwrap()*1000.0).round()/1000.0}));
    rep.outcome("lon:position-within-10m", total_lon_cells);
    drop(st);
    pairs_through_decode_positions(ctx, rep);
    sequences(ctx, rep, &te, &to);
    finish(rep, thorough);
}

/// The same law through the stateful entry point `decode_positions` (what jet1090 and decode1090 call): a fresh
/// decoder, one aircraft, two reports encoded from one point. The pure function is the oracle for the second report;
/// the first report alone, and a same-parity pair, must stay without a position; whatever position is attached must
/// be within 10 m of the point. Dimensions: order of the pair, time base (negative, zero, small, Unix), gap inside
/// the pairing window, receiver reference (none, near, far beyond the unambiguous range).
fn pairs_through_decode_positions(ctx: &Ctx, rep: &Report) {
    use crate::c06::{encode, templates};
    let tp = templates(0x4840d6);
    let te = airborne_template(false);
    let to = airborne_template(true);
    let mut pts: Vec<(f64, f64)> = Vec::new();
    let mut lat = -89.9;
    while lat < 89.95 {
        for lon in [0.0005, 45.1, 179.999, -120.3] {
            pts.push((lat, lon));
        }
        lat += 0.37;
    }
    let bases = [-86400.5f64, -5.0, 0.0, 1000.0, 1.7e9];
    let gaps = [0.6f64, 9.5];
    let cnt = AtomicU64::new(0);
    let got_pos = AtomicU64::new(0);
    par_items(ctx.threads, pts.len(), |i| {
        let (lat, lon) = pts[i];
        let (_, _, n1) = encode(lat, lon, false, false);
        let (_, _, n2) = encode(lat, lon, true, false);
        if n1 || n2 {
            return;
        }
        let refs = stateful_refs(lat, lon);
        for first_odd in [false, true] {
            for second_odd in [false, true] {
                for base in bases {
                    for gap in gaps {
                        for ri in 0..refs.len() {
                            cnt.fetch_add(1, Ordering::Relaxed);
                            if stateful_pair(&tp, &te, &to, lat, lon, first_odd, second_odd, base, gap, ri, rep) {
                                got_pos.fetch_add(1, Ordering::Relaxed);
                            }
                        }
                    }
                }
            }
        }
    });
    let c = cnt.load(Ordering::Relaxed);
    rep.eval(c);
    rep.state(c);
    rep.nontriv(got_pos.load(Ordering::Relaxed));
    rep.part("pairs through decode_positions: order x time base x gap x reference", c, json!({"points": pts.len(), "time_bases_s": bases, "gaps_s": gaps, "pairs_with_position": got_pos.load(Ordering::Relaxed)}));
    rep.outcome("stateful:pair-position", got_pos.load(Ordering::Relaxed));
}

#[allow(clippy::too_many_arguments)]
fn stateful_pair(tp: &crate::c06::Templates, te: &AirbornePosition, to: &AirbornePosition, lat: f64, lon: f64, first_odd: bool, second_odd: bool, base: f64, gap: f64, ri: usize, rep: &Report) -> bool {
    use crate::c06::{encode, make_msg, position_of};
    use rs1090::decode::cpr::decode_positions;
    use rs1090::decode::TimedMessage;
    let (ye, xe, _) = encode(lat, lon, false, false);
    let (yo, xo, _) = encode(lat, lon, true, false);
    let (te, to) = (*te, *to);
    let reference = stateful_refs(lat, lon)[ri];
    let code = |odd: bool| if odd { (yo, xo) } else { (ye, xe) };
    let (y1, x1) = code(first_odd);
    let (y2, x2) = code(second_odd);
    let mut msgs = vec![
        TimedMessage { timestamp: base, frame: vec![], message: Some(make_msg(&tp, false, first_odd, y1, x1)), metadata: vec![], decode_time: None, ..Default::default() },
        TimedMessage { timestamp: base + gap, frame: vec![], message: Some(make_msg(&tp, false, second_odd, y2, x2)), metadata: vec![], decode_time: None, ..Default::default() },
    ];
    let wit = json!({"kind": "decode_positions", "lat": lat, "lon": lon, "first_odd": first_odd, "second_odd": second_odd, "base": base, "gap": gap, "reference": ri});
    set_case(4 | (1 << 8), lat.to_bits(), lon.to_bits(), base.to_bits());
    let r = guarded(|| {
        decode_positions(&mut msgs, reference, &None);
        (msgs[0].message.as_ref().and_then(position_of), msgs[1].message.as_ref().and_then(position_of))
    });
    let (p1, p2) = match r {
        Err(p) => {
            rep.violation("stateful:panic", format!("decode_positions panicked: {p}"), wit);
            return false;
        }
        Ok(x) => x,
    };
    let which = ["none", "near", "far"][ri];
    for (k, p) in [p1, p2].iter().enumerate() {
        if let Some((la, lo)) = p {
            let d = haversine_m(lat, lon, *la, *lo);
            if !(d <= TOL_M) {
                rep.violation(&format!("stateful:wrong-position:reference-{which}"), format!("decode_positions (base {base} s, reference {which}): report {k} of a pair encoded at ({lat:.5},{lon:.5}) is given ({la:.5},{lo:.5}), {d:.0} m off"), wit.clone());
            }
        }
    }
    if first_odd == second_odd {
        if p1.is_some() || p2.is_some() {
            rep.violation(&format!("stateful:same-parity-position:reference-{which}"), format!("decode_positions (base {base} s, reference {which}): two reports of the same parity and nothing else: positions {p1:?} / {p2:?}"), wit.clone());
        }
        return false;
    }
    if p1.is_some() {
        rep.violation(&format!("stateful:single-report-position:reference-{which}"), format!("decode_positions (base {base} s, reference {which}): the first report of an aircraft is given {p1:?} before any report of the other parity was seen"), wit.clone());
    }
    // the pure function on the same two reports (latest = second) is the oracle for the pair
    let (mut e, mut o) = (te, to);
    e.lat_cpr = ye;
    e.lon_cpr = xe;
    o.lat_cpr = yo;
    o.lon_cpr = xo;
    let want = if second_odd { airborne_position(&e, &o) } else { airborne_position(&o, &e) };
    match (want, p2) {
        (Some(_), None) => {
            rep.violation(&format!("stateful:pair-without-position:base={}", if base < 0.0 { "negative" } else { "non-negative" }), format!("decode_positions (base {base} s, gap {gap} s, reference {which}): an even/odd pair from ({lat:.5},{lon:.5}) in one longitude band gets no position although airborne_position decodes it"), wit.clone());
        }
        (Some(_), Some(_)) => return true,
        _ => {}
    }
    false

}

fn stateful_refs(lat: f64, lon: f64) -> [Option<Position>; 3] {
    [None, Some(Position { latitude: (lat + 0.5).clamp(-89.0, 89.0), longitude: lon + 0.5 }), Some(Position { latitude: (lat - 12.0).clamp(-89.0, 89.0), longitude: lon + 14.0 })]
}

/// Two calls on one thread with the SAME four field values and different parity labels. The four labellings of one
/// quadruple of fields (even/odd, odd/even, even/even, odd/odd) are different inputs: a same-parity pair never has a
/// position, and a mixed pair must give what it gives after unrelated calls, whatever was decoded just before.
fn seq_quad(te: &AirbornePosition, to: &AirbornePosition, f: [u32; 4], rep: &Report, wit: &Value) -> u64 {
    let lab = [(false, true), (true, false), (false, false), (true, true)];
    let name = ["even/odd", "odd/even", "even/even", "odd/odd"];
    let mk = |(p0, p1): (bool, bool)| {
        let mut x = if p0 { *to } else { *te };
        x.lat_cpr = f[0];
        x.lon_cpr = f[1];
        let mut y = if p1 { *to } else { *te };
        y.lat_cpr = f[2];
        y.lon_cpr = f[3];
        (x, y)
    };
    let flush = || {
        // unrelated pairs between the judged calls: whatever the subject remembers is pushed out
        for i in 0..8u32 {
            let mut x = *te;
            x.lat_cpr = 40_000 + i;
            x.lon_cpr = 50_000 + 3 * i;
            let mut y = *to;
            y.lat_cpr = 60_000 + 5 * i;
            y.lon_cpr = 70_000 + 7 * i;
            let _ = guarded(|| airborne_position(&x, &y));
        }
    };
    let show = |r: &Result<Option<Position>, String>| match r {
        Ok(Some(p)) => format!("({:.6},{:.6})", p.latitude, p.longitude),
        Ok(None) => "no position".to_string(),
        Err(e) => format!("panic: {e}"),
    };
    let mut alone = Vec::new();
    for l in lab {
        flush();
        let (x, y) = mk(l);
        alone.push(guarded(|| airborne_position(&x, &y)).map(|o| o.map(|p| (p.latitude.to_bits(), p.longitude.to_bits()))));
    }
    let mut calls = 4;
    for i in 0..4 {
        for j in 0..4 {
            if i == j {
                continue;
            }
            flush();
            let (x, y) = mk(lab[i]);
            let _ = guarded(|| airborne_position(&x, &y));
            let (x, y) = mk(lab[j]);
            let r = guarded(|| airborne_position(&x, &y));
            calls += 2;
            let got = r.clone().map(|o| o.map(|p| (p.latitude.to_bits(), p.longitude.to_bits())));
            let mut w = wit.clone();
            if let Some(o) = w.as_object_mut() {
                o.insert("fields".into(), json!(f));
                o.insert("first".into(), json!(i));
                o.insert("second".into(), json!(j));
            }
            if j >= 2 && matches!(r, Ok(Some(_))) {
                rep.violation("sequence:same-parity-position", format!("fields {f:?}: the {} pair decoded right after the {} pair with the same field values yields {}", name[j], name[i], show(&r)), w);
                return calls;
            }
            if got != alone[j] {
                rep.violation("sequence:order-dependent", format!("fields {f:?}: the {} pair decoded right after the {} pair with the same field values gives {}, but after unrelated pairs it gives another result", name[j], name[i], show(&r)), w);
                return calls;
            }
        }
    }
    calls
}

fn sequences(ctx: &Ctx, rep: &Report, te: &AirbornePosition, to: &AirbornePosition) {
    let stride: i64 = if ctx.thorough() { 64 } else { 512 };
    let nbins = 2 * LAT_MAX_U / 118 + 2;
    let total = AtomicU64::new(0);
    let quads = AtomicU64::new(0);
    par_ranges(ctx.threads, nbins as u64, 4096, |lo, hi| {
        let a0 = (-LAT_MAX_U + 118 * lo as i64).min(LAT_MAX_U);
        let b0 = (-LAT_MAX_U + 118 * hi as i64).min(LAT_MAX_U);
        if a0 >= b0 {
            return;
        }
        let mut i = 0i64;
        let mut c_calls = 0;
        let mut c_quads = 0;
        for_cells(59, 60, a0, b0, |a, b| {
            i += 1;
            if (i + lo as i64) % stride != 0 || stopped() {
                return;
            }
            let c = lat_cell(a, b);
            let (n_e, n_o) = (c.nl0.max(1) as f64, (c.nl1 as f64 - 1.0).max(1.0));
            for lon in [0.0003f64, 12.34, 209.3] {
                let xe = ((131072.0 * (lon % (360.0 / n_e)) / (360.0 / n_e) + 0.5).floor() as i64).rem_euclid(TWO17) as u32;
                let xo = ((131072.0 * (lon % (360.0 / n_o)) / (360.0 / n_o) + 0.5).floor() as i64).rem_euclid(TWO17) as u32;
                c_calls += seq_quad(te, to, [code17(c.k0), xe, code17(c.k1), xo], rep, &json!({"kind":"sequence","a":a,"b":b}));
                c_quads += 1;
            }
        });
        total.fetch_add(c_calls, Ordering::Relaxed);
        quads.fetch_add(c_quads, Ordering::Relaxed);
    });
    // quadruples whose even and odd reports carry the same field values (points next to a zone corner such as 0N 0E)
    let mut corner = 0;
    for v in [0u32, 1, 2, 5, 77, 4096, 65_535, 65_536, 131_070, 131_071] {
        for w in [0u32, 1, 3, 65_536, 131_071] {
            for f in [[v, w, v, w], [v, v, v, v], [v, w, v, (w + 1) % 131_072], [v, w, (v + 1) % 131_072, w]] {
                total.fetch_add(seq_quad(te, to, f, rep, &json!({"kind":"sequence"})), Ordering::Relaxed);
                corner += 1;
            }
        }
    }
    let q = quads.load(Ordering::Relaxed) + corner;
    rep.eval(total.load(Ordering::Relaxed));
    rep.part("two-call sequences: the four parity labellings of one quadruple of field values, every ordered pair", q, json!({"lat_cell_stride": stride, "longitudes": 3, "corner_quadruples": corner, "calls": total.load(Ordering::Relaxed)}));
    rep.outcome("sequence:quadruples", q);
}

fn finish(rep: &Report, thorough: bool) {
    let ev = rep.evaluations.load(Ordering::Relaxed);
    rep.trans(ev);
    let u = lat_unit_deg(false);
    let c = lat_cell(59 * 2 * 500_000 - 59, 60 * (2 * 491_667 - 1));
    rep.sample(json!({"kind":"lat","cell_deg":[c.a as f64*u, c.b as f64*u],"codes":[code17(c.k0),code17(c.k1)],"nl":[c.nl0,c.nl1]}));
    rep.sample(json!({"kind":"lon","band":2,"cell_units":[1,2],"unit_deg":360.0/(2.0*262144.0)}));
    rep.set_bound(if thorough {
        "complete: every latitude cell in [-90,90] × both orders × 3 longitude backgrounds; every longitude cell of every band 1..59 × both orders × up to 6 representative latitude cells (nearest equator, nearest pole, worst latitude error; both hemispheres); every mixed-band cell; every cell relabelled even/even and odd/odd"
    } else {
        "complete over cells as in thorough, with up to 4 representative latitude cells per band (nearest equator and worst latitude error, both hemispheres)"
    });
    rep.assume("factorisation: latitude output does not depend on longitude codes (checked on 3 backgrounds per cell); longitude output depends on latitude only through NL (checked across the representatives of each band); a disagreement demotes 'exhaustive'");
    rep.assume("NL(lat) reference = closed form evaluated to 50 digits, NL(87 deg)=2, NL(>87 deg)=1");
    rep.assume("mean-sphere radius 6371008.8 m for the 10 m tolerance");
}

pub fn replay(w: &Value, rep: &Report) {
    let te = airborne_template(false);
    let to = airborne_template(true);
    let u = lat_unit_deg(false);
    if w["kind"].as_str() == Some("decode_positions") {
        let tp = crate::c06::templates(0x4840d6);
        stateful_pair(&tp, &te, &to, w["lat"].as_f64().unwrap_or(0.0), w["lon"].as_f64().unwrap_or(0.0), w["first_odd"].as_bool().unwrap_or(false), w["second_odd"].as_bool().unwrap_or(true), w["base"].as_f64().unwrap_or(0.0), w["gap"].as_f64().unwrap_or(0.6), w["reference"].as_u64().unwrap_or(0) as usize, rep);
        rep.trans(1);
        rep.state(1);
        rep.sample(w.clone());
        rep.outcome("replayed", 1);
        return;
    }
    let (a, b) = (w["a"].as_i64().unwrap_or(0), w["b"].as_i64().unwrap_or(1));
    let latest_odd = w["latest_odd"].as_bool().unwrap_or(true);
    match w["kind"].as_str() {
        Some("sequence") => {
            let f: Vec<u32> = w["fields"].as_array().map(|a| a.iter().map(|x| x.as_u64().unwrap_or(0) as u32).collect()).unwrap_or_default();
            if f.len() == 4 {
                seq_quad(&te, &to, [f[0], f[1], f[2], f[3]], rep, &json!({"kind":"sequence"}));
            }
        }
        Some("lat") => {
            let c = lat_cell(a, b);
            if let Err((cl, what)) = check_lat_cell(&te, &to, &c, latest_odd) {
                rep.violation(&cl, what, w.clone());
            }
        }
        Some("mixed") => {
            let c = lat_cell(a, b);
            if let Some((cl, what)) = check_mixed(&te, &to, &c, latest_odd, 2048) {
                rep.violation(&cl, what, w.clone());
            }
        }
        Some("same") => {
            let c = lat_cell(a, b);
            for (m1, m2) in [(&te, &te), (&to, &to)] {
                let mut x = *m1;
                x.lat_cpr = code17(c.k0);
                x.lon_cpr = 5;
                let mut y = *m2;
                y.lat_cpr = code17(c.k1);
                y.lon_cpr = 77;
                if let Ok(Some(_)) = guarded(|| airborne_position(&x, &y)) {
                    rep.violation("global:same-parity-position", "same-parity pair yields a position".into(), w.clone());
                }
            }
        }
        Some("lon") => {
            let n = w["n"].as_i64().unwrap();
            let (n0, n1) = (n, (n - 1).max(1));
            let circle = n0 * n1 * (1i64 << 18);
            let wd = 360.0 / circle as f64;
            let c = lat_cell(w["lat_a"].as_i64().unwrap(), w["lat_b"].as_i64().unwrap());
            let (i0, i1) = lon_index(a, n0, n1);
            match call(&te, &to, code17(c.k0), code17(i0), code17(c.k1), code17(i1), latest_odd) {
                Err(p) => rep.violation("global:panic", p, w.clone()),
                Ok(None) => rep.violation(&format!("global:none-in-same-band:lon:NL={n}"), "no position".into(), w.clone()),
                Ok(Some(p)) => {
                    let d = worst_corner_m(p.latitude, p.longitude, c.a as f64 * u, c.b as f64 * u, a as f64 * wd, b as f64 * wd);
                    if !(p.longitude >= -180.0 && p.longitude < 180.0) {
                        rep.violation("global:lon-range", format!("longitude {}", p.longitude), w.clone());
                    } else if d > TOL_M {
                        let order = if latest_odd { "latest-odd" } else { "latest-even" };
                        rep.violation(&format!("global:distance:NL={n}:{order}"), format!("{d:.1} m"), w.clone());
                    }
                }
            }
        }
        _ => panic!("bad witness"),
    }
}

//! C02 — CRC = remainder modulo the Mode S generator; DF17 accepted iff
//! syndrome zero; AP address recovery.

use crate::common::*;
use rs1090::decode::crc::modes_checksum;
use rs1090::decode::{Message, DF};
use serde_json::{json, Value};
use std::sync::atomic::Ordering;

/// Reference CRC by linearity: per-byte-position contribution tables computed
/// by bit-serial division of single-byte frames (no relation to CRC_TABLE).
pub struct RefCrc {
    n: usize,
    tab: Vec<[u32; 256]>,
}

impl RefCrc {
    pub fn new(n: usize) -> Self {
        let mut tab = vec![[0u32; 256]; n];
        for pos in 0..n {
            for b in 0..256usize {
                let mut f = vec![0u8; n];
                f[pos] = b as u8;
                tab[pos][b] = ref_remainder(&f);
            }
        }
        let r = RefCrc { n, tab };
        // self-check against the bit-serial form on pseudo-random frames
        let mut rng = Rng(0x1090);
        for _ in 0..4096 {
            let f: Vec<u8> = (0..n).map(|_| rng.next() as u8).collect();
            assert_eq!(r.rem(&f), ref_remainder(&f), "reference CRC self-check");
        }
        r
    }
    #[inline]
    pub fn rem(&self, f: &[u8]) -> u32 {
        let mut r = 0;
        for i in 0..self.n {
            r ^= self.tab[i][f[i] as usize];
        }
        r
    }
}

fn impl_crc(f: &[u8]) -> Result<u32, String> {
    set_case_bytes(2, f);
    match guarded(|| modes_checksum(f, f.len() * 8)) {
        Err(p) => Err(format!("panic: {p}")),
        Ok(Err(e)) => Err(format!("error: {e}")),
        Ok(Ok(v)) => Ok(v),
    }
}

fn check_crc(f: &[u8], want: u32) -> Option<(String, String)> {
    match impl_crc(f) {
        Err(e) => Some(("crc:fails".into(), format!("modes_checksum({}) {e}", hexs(f)))),
        Ok(v) if v != want => Some((
            format!("crc:value:len{}", f.len()),
            format!("modes_checksum({}) = {v:06x}, polynomial remainder is {want:06x}", hexs(f)),
        )),
        _ => None,
    }
}

/// DF17 acceptance: Ok(df==17) iff syndrome zero.
static ACCEPTED17: std::sync::atomic::AtomicU64 = std::sync::atomic::AtomicU64::new(0);
static REJECTED: std::sync::atomic::AtomicU64 = std::sync::atomic::AtomicU64::new(0);
static CONTENT_REJECTED: std::sync::atomic::AtomicU64 = std::sync::atomic::AtomicU64::new(0);
static OTHER_DF: std::sync::atomic::AtomicU64 = std::sync::atomic::AtomicU64::new(0);

fn check_accept(f: &[u8]) -> Option<(String, String)> {
    let syn = ref_remainder(f);
    let df = f[0] >> 3;
    set_case_bytes(2, f);
    match guarded(|| Message::try_from(f)) {
        Err(p) => Some(("accept:panic".into(), format!("Message::try_from({}) panicked: {p}", hexs(f)))),
        Ok(r) => {
            let accepted17 = matches!(&r, Ok(m) if matches!(m.df, DF::ExtendedSquitterADSB(_)));
            if accepted17 {
                ACCEPTED17.fetch_add(1, Ordering::Relaxed);
            } else if r.is_ok() {
                OTHER_DF.fetch_add(1, Ordering::Relaxed);
            } else {
                REJECTED.fetch_add(1, Ordering::Relaxed);
            }
            if df == 17 && syn == 0 && !accepted17 {
                // the property is about the parity gate: a zero-syndrome frame must not be refused *because of
                // its checksum*. The decoder may still refuse a payload it finds malformed (e.g. reserved bits of
                // an operational-status message): that is counted, not judged.
                let why = r.as_ref().err().map(|e| e.to_string()).unwrap_or_default();
                if why.contains("CRC") || r.is_ok() {
                    Some(("accept:valid-rejected".into(), format!("CRC-valid DF17 frame {} not accepted: {:?}", hexs(f), why)))
                } else {
                    CONTENT_REJECTED.fetch_add(1, Ordering::Relaxed);
                    None
                }
            } else if syn != 0 && accepted17 {
                Some(("accept:corrupt-accepted".into(), format!("frame {} with syndrome {syn:06x} accepted as DF17", hexs(f))))
            } else {
                None
            }
        }
    }
}

pub fn icao_of(m: &Message) -> Option<u32> {
    match &m.df {
        DF::ShortAirAirSurveillance { ap, .. }
        | DF::SurveillanceAltitudeReply { ap, .. }
        | DF::SurveillanceIdentityReply { ap, .. }
        | DF::LongAirAirSurveillance { ap, .. }
        | DF::CommBAltitudeReply { ap, .. }
        | DF::CommBIdentityReply { ap, .. } => Some(ap.0),
        DF::AllCallReply { icao, .. } => Some(icao.0),
        DF::ExtendedSquitterADSB(a) => Some(a.icao24.0),
        DF::ExtendedSquitterTisB { cf, .. } => Some(cf.aa.0),
        _ => None,
    }
}

/// AP overlay: frame built with parity XOR address must report that address.
fn check_ap(f: &[u8], addr: u32, with_json: bool) -> Option<(String, String)> {
    let df = f[0] >> 3;
    set_case_bytes(2, f);
    match guarded(|| Message::try_from(f)) {
        Err(p) => Some((format!("ap:panic:DF{df}"), format!("Message::try_from({}) panicked: {p}", hexs(f)))),
        Ok(Err(e)) => Some((format!("ap:rejected:DF{df}"), format!("frame {} rejected: {e}", hexs(f)))),
        Ok(Ok(m)) => {
            if icao_of(&m) != Some(addr) {
                return Some((format!("ap:address:DF{df}"), format!("frame {} sent by {addr:06x} reported as {:?}", hexs(f), icao_of(&m).map(|a| format!("{a:06x}")))));
            }
            if with_json {
                match serde_json::to_value(&m) {
                    Ok(v) => {
                        let want = format!("{addr:06x}");
                        if v["icao24"].as_str() != Some(&want) {
                            return Some((format!("ap:json-address:DF{df}"), format!("frame {} sent by {want} serialised with icao24={}", hexs(f), v["icao24"])));
                        }
                    }
                    Err(e) => return Some((format!("ap:json-error:DF{df}"), format!("frame {}: {e}", hexs(f)))),
                }
            }
            None
        }
    }
}

fn base_frames() -> Vec<Vec<u8>> {
    // one CRC-valid DF17 frame per type code, payload bits from a fixed pattern
    let mut v = Vec::new();
    for tc in 0..32u8 {
        let mut f = vec![0x8d, 0x40, 0x6b, 0x90, tc << 3 | 0x01, 0x15, 0xa6, 0x78, 0xd4, 0xd2, 0x20, 0, 0, 0];
        seal(&mut f, 0);
        v.push(f);
    }
    v
}

fn ap_frame(df: u8, payload: u8, addr: u32) -> Vec<u8> {
    let long = df & 0x10 != 0;
    let mut f = vec![0u8; if long { 14 } else { 7 }];
    f[0] = df << 3;
    match payload {
        0 => {}
        1 => {
            f[0] |= 0x05;
            f[1] = 0xff;
            f[2] = 0x1f;
            f[3] = 0x3f
        }
        _ => {
            f[1] = 0x20;
            f[2] = 0x0c;
            f[3] = 0x90 // AC 25-ft code
        }
    }
    if df == 16 && payload > 0 {
        for i in 4..11 {
            f[i] = 0xa5 ^ (i as u8)
        }
    }
    // DF20/21: MB left empty so the Comm-B reader takes its all-zero path
    seal(&mut f, addr);
    f
}

pub fn run(ctx: &Ctx, rep: &Report) {
    let thorough = ctx.thorough();
    rep.set_rule("modes_checksum compared with bit-serial polynomial division on every enumerated frame; Message::try_from on every (base frame XOR error/syndrome pattern); AP frames built by the reference for every address. non-trivial = frames with a non-zero remainder / corrupted frames / distinct addresses");
    let r7 = RefCrc::new(7);
    let r14 = RefCrc::new(14);

    // (a) all 2^32 four-byte prefixes, zero trailer: loop body from every state with every byte
    {
        let nz = std::sync::atomic::AtomicU64::new(0);
        par_ranges(ctx.threads, 1 << 24, 1 << 12, |lo, hi| {
            let mut f = [0u8; 7];
            let mut local_nz = 0u64;
            let mut bad = 0;
            for p in lo..hi {
                f[0] = (p >> 16) as u8;
                f[1] = (p >> 8) as u8;
                f[2] = p as u8;
                for b in 0..=255u8 {
                    f[3] = b;
                    let want = r7.rem(&f);
                    if want != 0 {
                        local_nz += 1;
                    }
                    if let Some((c, w)) = check_crc(&f, want) {
                        rep.violation(&c, w, json!({"kind":"crc","frame":hexs(&f)}));
                        bad += 1;
                        if bad > 16 {
                            return;
                        }
                    }
                }
            }
            rep.eval((hi - lo) * 256);
            nz.fetch_add(local_nz, Ordering::Relaxed);
        });
        rep.nontriv(nz.load(Ordering::Relaxed));
        rep.outcome("crc56:nonzero-remainder", nz.load(Ordering::Relaxed));
        rep.outcome("crc56:zero-remainder", (1u64 << 32) - nz.load(Ordering::Relaxed));
        rep.part("crc:all-2^32-prefixes-56bit", 1u64 << 32, json!({"nonzero_remainders": nz.load(Ordering::Relaxed)}));
    }
    // (b) all 2^24 trailers on 3 prefixes (final XOR), 56 and 112 bits
    for (pi, prefix) in [[0u8; 11], [0xff; 11], [0x8d, 0x40, 0x6b, 0x90, 0x20, 0x15, 0xa6, 0x78, 0xd4, 0xd2, 0x20]].iter().enumerate() {
        par_ranges(ctx.threads, 1 << 24, 1 << 16, |lo, hi| {
            let mut f7 = [0u8; 7];
            let mut f14 = [0u8; 14];
            f7[..4].copy_from_slice(&prefix[..4]);
            f14[..11].copy_from_slice(prefix);
            let mut bad = 0;
            for t in lo..hi {
                let tb = [(t >> 16) as u8, (t >> 8) as u8, t as u8];
                f7[4..].copy_from_slice(&tb);
                f14[11..].copy_from_slice(&tb);
                for (f, r) in [(&f7[..], &r7), (&f14[..], &r14)] {
                    if let Some((c, w)) = check_crc(f, r.rem(f)) {
                        rep.violation(&c, w, json!({"kind":"crc","frame":hexs(f)}));
                        bad += 1;
                    }
                }
                if bad > 16 {
                    return;
                }
            }
            rep.eval((hi - lo) * 2);
        });
        rep.part(&format!("crc:all-2^24-trailers-prefix{pi}"), 2 << 24, json!({}));
    }
    // (c) 112-bit frames: one-bit, two-bit, 16-bit windows at every bit offset
    {
        let mut n = 0u64;
        for i in 0..112 {
            for j in i..112 {
                let mut f = [0u8; 14];
                set_bits(&mut f, i, 1, 1);
                set_bits(&mut f, j, 1, 1);
                if let Some((c, w)) = check_crc(&f, ref_remainder(&f)) {
                    rep.violation(&c, w, json!({"kind":"crc","frame":hexs(&f)}));
                }
                n += 1;
            }
        }
        rep.eval(n);
        rep.part("crc:112bit-one-and-two-bit-frames", n, json!({}));
        par_ranges(ctx.threads, 97 * 65536, 1 << 14, |lo, hi| {
            let mut bad = 0;
            for k in lo..hi {
                let (off, val) = ((k >> 16) as usize, k & 0xffff);
                for bg in [0u8, 0xff] {
                    let mut f = [bg; 14];
                    set_bits(&mut f, off, 16, val);
                    if let Some((c, w)) = check_crc(&f, r14.rem(&f)) {
                        rep.violation(&c, w, json!({"kind":"crc","frame":hexs(&f)}));
                        bad += 1;
                    }
                }
                if bad > 16 {
                    return;
                }
            }
            rep.eval((hi - lo) * 2);
        });
        rep.part("crc:112bit-16bit-windows-every-offset", 97 * 65536 * 2, json!({}));
    }
    // (c') the (buffer, bit count) contract: the demodulator hands over its whole buffer with the length of the frame it
    // hopes for, so the buffer may be longer than the frame - the bytes after the frame are not part of it; a bit count that
    // is not a multiple of 8 denotes the whole bytes below it
    {
        let mut n = 0u64;
        let mut rng = Rng(0xc02b);
        let mut frames: Vec<Vec<u8>> = base_frames();
        for _ in 0..400 {
            let l = if rng.next() & 1 == 0 { 7 } else { 14 };
            frames.push((0..l).map(|_| rng.next() as u8).collect());
        }
        for f in &frames {
            for nb in [7usize, 14] {
                if f.len() < nb {
                    continue;
                }
                let want = ref_remainder(&f[..nb]);
                for (extra, fill) in [(0usize, 0u8), (1, 0x00), (1, 0xff), (7, 0x00), (7, 0xa5), (9, 0xff), (50, 0x5a)] {
                    let mut buf = f[..nb].to_vec();
                    buf.extend(std::iter::repeat(fill).take(extra));
                    if extra > 0 && f.len() > nb {
                        // also: the real continuation of a longer frame
                        buf = f.clone();
                        buf.extend(std::iter::repeat(fill).take(extra));
                    }
                    for slack in [0usize, 1, 7] {
                        let bits = nb * 8 + slack;
                        if slack > 0 && buf.len() * 8 < bits {
                            continue;
                        }
                        n += 1;
                        set_case_bytes(2, &buf);
                        let got = guarded(|| modes_checksum(&buf, bits));
                        let bad = match &got {
                            Err(p) => Some(("crc:buffer:panic".to_string(), format!("panicked: {p}"))),
                            Ok(Err(e)) => Some(("crc:buffer:fails".to_string(), format!("error: {e}"))),
                            Ok(Ok(v)) if *v != want => Some(("crc:buffer:value".to_string(), format!("= {v:06x}, the remainder of the {nb}-byte frame is {want:06x}"))),
                            _ => None,
                        };
                        if let Some((c, w)) = bad {
                            rep.violation(&c, format!("modes_checksum({}, {bits}) on a {}-byte buffer {w}", hexs(&buf), buf.len()), json!({"kind":"crc-buffer","frame":hexs(&buf),"bits":bits,"nb":nb}));
                        }
                    }
                }
            }
        }
        rep.eval(n);
        rep.part("crc:(buffer, bit count) contract - buffers longer than the frame, bit counts off the byte grid", n, json!({"frames": frames.len()}));
    }
    // (d) error patterns have a non-zero syndrome (1 bit, 2 bits, bursts <= 24)
    {
        let maxlen = 24;
        let mut total = 0u64;
        for len in 1..=maxlen {
            let inner = if len <= 2 { 1u64 } else { 1u64 << (len - 2) };
            let offs = (112 - len + 1) as u64;
            let cnt = inner * offs;
            total += cnt;
            par_ranges(ctx.threads, cnt, 1 << 16, |lo, hi| {
                for k in lo..hi {
                    let (off, mid) = ((k / inner) as usize, k % inner);
                    let pat: u64 = if len == 1 { 1 } else { (1 << (len - 1)) | (mid << 1) | 1 };
                    let mut f = [0u8; 14];
                    set_bits(&mut f, off, len, pat);
                    match impl_crc(&f) {
                        Ok(0) => rep.violation("crc:pattern-undetected", format!("error pattern {} (burst of {len} bits at bit {off}) has syndrome 0", hexs(&f)), json!({"kind":"pattern","frame":hexs(&f)})),
                        Ok(_) => {}
                        Err(e) => rep.violation("crc:fails", format!("modes_checksum({}) {e}", hexs(&f)), json!({"kind":"pattern","frame":hexs(&f)})),
                    }
                }
                rep.eval(hi - lo);
                rep.nontriv(hi - lo);
            });
        }
        let mut n2 = 0u64;
        for i in 0..112 {
            for j in (i + 1)..112 {
                let mut f = [0u8; 14];
                set_bits(&mut f, i, 1, 1);
                set_bits(&mut f, j, 1, 1);
                if impl_crc(&f) == Ok(0) {
                    rep.violation("crc:pattern-undetected", format!("double-bit error {} has syndrome 0", hexs(&f)), json!({"kind":"pattern","frame":hexs(&f)}));
                }
                n2 += 1;
            }
        }
        rep.eval(n2);
        rep.part("crc:error-patterns-1bit-2bit-bursts<=24", total + n2, json!({}));
    }
    // (e) acceptance through Message::try_from
    {
        let bases = base_frames();
        for b in &bases {
            if ref_remainder(b) != 0 {
                panic!("reference seal self-check failed");
            }
        }
        let nb = if thorough { 32 } else { 4 };
        let picks: Vec<&Vec<u8>> = if thorough { bases.iter().collect() } else { [0usize, 4, 11, 19].iter().map(|&i| &bases[i]).collect() };
        // syndromes
        let syn_list: Vec<u32> = if thorough {
            Vec::new()
        } else {
            let mut v: Vec<u32> = (0..1u32 << 16).collect();
            for i in 0..24 {
                for j in i..24 {
                    v.push((1 << i) | (1 << j));
                }
            }
            for k in 0..256u32 {
                v.push(k << 16);
                v.push(0xffffff ^ k);
            }
            v
        };
        let nsyn: u64 = if thorough { 1 << 24 } else { syn_list.len() as u64 };
        for (bi, b) in picks.iter().enumerate() {
            par_ranges(ctx.threads, nsyn, 1 << 14, |lo, hi| {
                let mut f = (*b).clone();
                let mut bad = 0;
                for k in lo..hi {
                    let s = if thorough { k as u32 } else { syn_list[k as usize] };
                    f[11] = b[11] ^ (s >> 16) as u8;
                    f[12] = b[12] ^ (s >> 8) as u8;
                    f[13] = b[13] ^ s as u8;
                    if let Some((c, w)) = check_accept(&f) {
                        rep.violation(&c, w, json!({"kind":"accept","frame":hexs(&f)}));
                        bad += 1;
                        if bad > 16 {
                            return;
                        }
                    }
                }
                rep.eval(hi - lo);
                rep.nontriv(hi - lo);
            });
            let _ = bi;
        }
        rep.part("accept:base-frames×syndromes", nb as u64 * nsyn, json!({"base_frames": nb, "syndromes_each": nsyn}));
        // corruptions of base frames: 1 bit, 2 bits, bursts
        for (bi, b) in picks.iter().enumerate() {
            let maxlen = if thorough && bi == 0 { 24 } else if thorough { 16 } else { 12 };
            let mut total = 0u64;
            for len in 1..=maxlen {
                let inner = if len <= 2 { 1u64 } else { 1u64 << (len - 2) };
                let offs = (112 - len + 1) as u64;
                let cnt = inner * offs;
                total += cnt;
                par_ranges(ctx.threads, cnt, 1 << 14, |lo, hi| {
                    let mut bad = 0;
                    for k in lo..hi {
                        let (off, mid) = ((k / inner) as usize, k % inner);
                        let pat: u64 = if len == 1 { 1 } else { (1 << (len - 1)) | (mid << 1) | 1 };
                        let mut f = (*b).clone();
                        let cur = get_bits(&f, off, len);
                        set_bits(&mut f, off, len, cur ^ pat);
                        if let Some((c, w)) = check_accept(&f) {
                            rep.violation(&c, w, json!({"kind":"accept","frame":hexs(&f)}));
                            bad += 1;
                            if bad > 16 {
                                return;
                            }
                        }
                    }
                    rep.eval(hi - lo);
                    rep.nontriv(hi - lo);
                });
            }
            for i in 0..112 {
                for j in (i + 1)..112 {
                    let mut f = (*b).clone();
                    f[i / 8] ^= 0x80 >> (i % 8);
                    f[j / 8] ^= 0x80 >> (j % 8);
                    if let Some((c, w)) = check_accept(&f) {
                        rep.violation(&c, w, json!({"kind":"accept","frame":hexs(&f)}));
                    }
                    total += 1;
                }
            }
            rep.eval(6216);
            if bi == 0 || !thorough {
                rep.part(&format!("accept:corruptions-of-base{bi}"), total, json!({"max_burst": maxlen}));
            }
        }
    }
    // structured corruptions: a whole 24-bit window of a valid frame (byte aligned: the address, the parity field, ...)
    // replaced by zeros, by ones, by its complement, by the frame's address or by its parity field - what a relay that
    // "normalises" frames, or a truncating copy, produces. Each is a burst of at most 24 bits.
    {
        let mut total = 0u64;
        for b in base_frames() {
            let aa = get_bits(&b, 8, 24);
            let pi = get_bits(&b, 88, 24);
            for off in (0..=88).step_by(8) {
                let cur = get_bits(&b, off, 24);
                for v in [0u64, 0xff_ffff, cur ^ 0xff_ffff, aa, pi, cur & 0xff_ff00, cur & 0x00_ffff] {
                    if v == cur {
                        continue;
                    }
                    let mut f = b.clone();
                    set_bits(&mut f, off, 24, v);
                    total += 1;
                    if let Some((c, w)) = check_accept(&f) {
                        rep.violation(&c, format!("{w} (a 24-bit window at bit {off} of a valid frame replaced by {v:06x})"), json!({"kind":"accept","frame":hexs(&f)}));
                    }
                }
            }
        }
        rep.eval(total);
        rep.nontriv(total);
        rep.part("accept:structured 24-bit window replacements of every base frame", total, json!({}));
    }
    // (f) AP address recovery
    {
        let dfs = [0u8, 4, 5, 16, 20, 21];
        let mut total = 0u64;
        for &df in &dfs {
            for payload in 0..3u8 {
                let full = thorough || (df == 4 && payload == 0);
                if full {
                    par_ranges(ctx.threads, 1 << 24, 1 << 14, |lo, hi| {
                        let mut bad = 0;
                        for a in lo..hi {
                            let f = ap_frame(df, payload, a as u32);
                            if let Some((c, w)) = check_ap(&f, a as u32, a % 4096 == 0) {
                                rep.violation(&c, w, json!({"kind":"ap","frame":hexs(&f),"addr":a}));
                                bad += 1;
                                if bad > 16 {
                                    return;
                                }
                            }
                        }
                        rep.eval(hi - lo);
                        rep.nontriv(hi - lo);
                    });
                    total += 1 << 24;
                } else {
                    // three 16-bit windows over the 24-bit address on two backgrounds
                    par_ranges(ctx.threads, 3 * 2 * 65536, 1 << 12, |lo, hi| {
                        for k in lo..hi {
                            let (w, bg, v) = ((k >> 17) as u32, ((k >> 16) & 1) as u32, (k & 0xffff) as u32);
                            let sh = w * 4;
                            let mask = 0xffffu32 << sh;
                            let a = ((if bg == 1 { 0xffffff } else { 0 }) & !mask) | (v << sh);
                            let f = ap_frame(df, payload, a);
                            if let Some((c, w)) = check_ap(&f, a, true) {
                                rep.violation(&c, w, json!({"kind":"ap","frame":hexs(&f),"addr":a}));
                            }
                        }
                        rep.eval(hi - lo);
                        rep.nontriv(hi - lo);
                    });
                    total += 3 * 2 * 65536;
                }
            }
        }
        // "... for every payload": every value of each 16-bit window of the 56-bit MV / MB field of the long formats
        // (the Comm-B reader infers registers from the payload; what it infers must not touch the address)
        {
            let addrs: &[u32] = if thorough { &[0x4840d6, 0xffffff, 0x000001] } else { &[0x4840d6] };
            let offs: Vec<usize> = if thorough { (32..=72).step_by(8).collect() } else { vec![32, 72] };
            let bgs: [[u8; 7]; 3] = [[0; 7], [0xff; 7], [0x10, 0x00, 0x00, 0x00, 0x00, 0x00, 0x00]];
            for &df in &[16u8, 20, 21] {
                for &a in addrs {
                    for &off in &offs {
                        for bg in &bgs {
                            par_ranges(ctx.threads, 65536, 1 << 10, |lo, hi| {
                                for v in lo..hi {
                                    let mut f = vec![0u8; 14];
                                    f[0] = df << 3;
                                    f[2] = 0x0c;
                                    f[3] = 0x90;
                                    f[4..11].copy_from_slice(bg);
                                    set_bits(&mut f, off, 16, v);
                                    seal(&mut f, a);
                                    if let Some((c, w)) = check_ap(&f, a, v % 64 == 0) {
                                        rep.violation(&format!("{c}:payload"), w, json!({"kind":"ap","frame":hexs(&f),"addr":a}));
                                    }
                                }
                                rep.eval(hi - lo);
                                rep.nontriv(hi - lo);
                            });
                            total += 65536;
                        }
                    }
                }
            }
        }
        rep.outcome("ap:address-recovered", total);
        rep.part("ap:address-recovery", total, json!({"dfs": dfs, "payloads": 3, "all_2^24_addresses": if thorough {"every DF × payload"} else {"DF4 payload 0; 16-bit windows elsewhere"}}));
    }
    // (g) sequences: an address is announced (DF17 squitter, clean DF11), then replies overlaid with every
    // address at Hamming distance <= 1 from it are decoded on the same thread; a valid squitter followed by its own
    // corruptions. What was decoded before must not change the reported address / the acceptance.
    {
        let announced: Vec<u32> = {
            let mut v = vec![0x406b90u32, 0x000000, 0xffffff, 0x800000, 0x000001, 0xa5a5a5];
            for i in 0..(if thorough { 256 } else { 32 }) {
                v.push((0x4840d6u32.wrapping_mul(2654435761u32.wrapping_add(i)) >> 4) & 0xffffff);
            }
            v
        };
        let total = std::sync::atomic::AtomicU64::new(0);
        par_ranges(ctx.threads, announced.len() as u64, 1, |lo, hi| {
            let mut n = 0u64;
            for x in &announced[lo as usize..hi as usize] {
                let mut sq = vec![0x8d, (x >> 16) as u8, (x >> 8) as u8, *x as u8, 0x20, 0x15, 0xa6, 0x78, 0xd4, 0xd2, 0x20, 0, 0, 0];
                seal(&mut sq, 0);
                let mut ac = vec![0x5d, (x >> 16) as u8, (x >> 8) as u8, *x as u8, 0, 0, 0];
                seal(&mut ac, 0);
                for announce in [&sq, &ac] {
                    for bit in 0..=24u32 {
                        let y = if bit == 24 { *x } else { x ^ (1 << bit) };
                        for df in [0u8, 4, 5, 16, 20, 21] {
                            let _ = guarded(|| Message::try_from(announce.as_slice()));
                            let f = ap_frame(df, 2, y);
                            n += 1;
                            if let Some((c, w)) = check_ap(&f, y, true) {
                                rep.violation(&format!("sequence:{c}"), format!("{w} when decoded right after {}", hexs(announce)), json!({"kind":"ap-after","frame":hexs(&f),"addr":y,"after":hexs(announce)}));
                            }
                        }
                    }
                }
                // the valid squitter, then each single-bit corruption of it (re-announcing before every one)
                for bit in 0..112usize {
                    let _ = guarded(|| Message::try_from(sq.as_slice()));
                    let mut c = sq.clone();
                    c[bit / 8] ^= 0x80 >> (bit % 8);
                    n += 1;
                    if let Some((cl, w)) = check_accept(&c) {
                        rep.violation(&format!("sequence:{cl}"), format!("{w} when decoded right after the valid frame {}", hexs(&sq)), json!({"kind":"accept-after","frame":hexs(&c),"after":hexs(&sq)}));
                    }
                }
            }
            total.fetch_add(n, Ordering::Relaxed);
        });
        rep.eval(total.load(Ordering::Relaxed));
        rep.part("sequences: announce then reply / valid then corrupt", total.load(Ordering::Relaxed), json!({"announced_addresses": announced.len()}));
    }
    rep.outcome("accept:accepted-as-DF17", ACCEPTED17.load(Ordering::Relaxed));
    rep.outcome("accept:rejected", REJECTED.load(Ordering::Relaxed));
    if CONTENT_REJECTED.load(Ordering::Relaxed) > 0 {
        rep.outcome("accept:zero-syndrome frame refused for its payload (not judged)", CONTENT_REJECTED.load(Ordering::Relaxed));
    }
    rep.assume("a zero-syndrome DF17 frame that the decoder refuses because of its payload (not because of the checksum) is outside the property: C02 is about the parity gate");
    rep.outcome("accept:decoded-as-other-DF", OTHER_DF.load(Ordering::Relaxed));
    let ev = rep.evaluations.load(Ordering::Relaxed);
    rep.state(ev);
    rep.trans(ev);
    rep.sample(json!({"kind":"crc","frame":"8d406b90000000","note":"one of the 2^32 prefixes"}));
    rep.sample(json!({"kind":"accept","frame":hexs(&base_frames()[11]),"note":"CRC-valid base frame, type code 11"}));
    rep.sample(json!({"kind":"ap","frame":hexs(&ap_frame(20,2,0x4840d6)),"addr":0x4840d6}));
    rep.set_bound(if thorough {
        "all 2^32 4-byte prefixes (every CRC state × every byte); all 2^24 trailers × 3 prefixes × 2 lengths; every 16-bit window at every bit offset of 112-bit frames; every burst ≤ 24 bits, 1-bit and 2-bit pattern; 32 base frames × all 2^24 syndromes; bursts ≤ 24 (base 0) / ≤ 16 (others) through Message::try_from; all 2^24 addresses × 6 DF × 3 payloads"
    } else {
        "CRC part complete as in thorough; acceptance on 4 base frames × (2^16 low syndromes + all weight ≤ 2 + 512 extremes) and bursts ≤ 12; all 2^24 addresses for DF4, 16-bit address windows for DF0/5/16/20/21"
    });
    if !thorough {
        rep.exhaustive.store(false, Ordering::Relaxed);
    }
    rep.assume("loop-body induction: a CRC loop body correct from every 24-bit state with every next byte is correct for every message length (the 112-bit sweeps test iterations 4..10 directly)");
    rep.assume("AP sweeps keep MB/MV payloads to 3 fixed backgrounds; the overlay is linear so the payload cannot interact with the address unless the CRC itself is wrong, which part (a) excludes");
}

pub fn replay(w: &Value, rep: &Report) {
    let f = unhex(w["frame"].as_str().unwrap_or(""));
    match w["kind"].as_str() {
        Some("crc") => {
            if let Some((c, what)) = check_crc(&f, ref_remainder(&f)) {
                rep.violation(&c, what, w.clone());
            }
        }
        Some("crc-buffer") => {
            let bits = w["bits"].as_u64().unwrap_or(0) as usize;
            let nb = w["nb"].as_u64().unwrap_or(0) as usize;
            match guarded(|| modes_checksum(&f, bits)) {
                Err(p) => rep.violation("crc:buffer:panic", format!("modes_checksum({}, {bits}) panicked: {p}", hexs(&f)), w.clone()),
                Ok(Err(e)) if nb > 0 => rep.violation("crc:buffer:fails", format!("modes_checksum({}, {bits}) error: {e}", hexs(&f)), w.clone()),
                Ok(Ok(v)) if v != ref_remainder(&f[..nb]) => rep.violation("crc:buffer:value", format!("modes_checksum({}, {bits}) = {v:06x}, the remainder of the {nb}-byte frame is {:06x}", hexs(&f), ref_remainder(&f[..nb])), w.clone()),
                _ => {}
            }
        }
        Some("pattern") => match impl_crc(&f) {
            Ok(0) => rep.violation("crc:pattern-undetected", format!("pattern {} has syndrome 0", hexs(&f)), w.clone()),
            Ok(_) => {}
            Err(e) => rep.violation("crc:fails", e, w.clone()),
        },
        Some("accept") => {
            if let Some((c, what)) = check_accept(&f) {
                rep.violation(&c, what, w.clone());
            }
        }
        Some("ap") => {
            if let Some((c, what)) = check_ap(&f, w["addr"].as_u64().unwrap() as u32, true) {
                rep.violation(&c, what, w.clone());
            }
        }
        Some("ap-after") => {
            let _ = guarded(|| Message::try_from(unhex(w["after"].as_str().unwrap_or("")).as_slice()));
            if let Some((c, what)) = check_ap(&f, w["addr"].as_u64().unwrap() as u32, true) {
                rep.violation(&format!("sequence:{c}"), what, w.clone());
            }
        }
        Some("accept-after") => {
            let _ = guarded(|| Message::try_from(unhex(w["after"].as_str().unwrap_or("")).as_slice()));
            if let Some((c, what)) = check_accept(&f) {
                rep.violation(&format!("sequence:{c}"), what, w.clone());
            }
        }
        _ => panic!("bad witness"),
    }
}

//! C07 — JSON serialisation of every accepted message of the shared frame
//! space: serialises, one line, strict parse without duplicate keys, no
//! non-finite number, df / icao24 recomputed from the frame bits, timed record
//! keeps the frame as hex and re-decoding that hex gives the same members.

use crate::common::*;
use crate::frames::*;
use crate::fspace::{self, Decoded, RegOut, Visitor};
use rs1090::decode::{Message, TimedMessage};
use serde::ser::{self, Serialize};
use serde_json::{json, Value};
use std::collections::BTreeMap;
use std::sync::Mutex;

// ---------------------------------------------------------------------------
// strict JSON reader (RFC 8259) with duplicate-key detection at every level

#[derive(Debug, Clone, PartialEq)]
pub enum J {
    Null,
    Bool(bool),
    Num(String),
    Str(String),
    Arr(Vec<J>),
    Obj(Vec<(String, J)>),
}

pub struct P<'a> {
    s: &'a [u8],
    i: usize,
}

impl<'a> P<'a> {
    pub fn parse_document(text: &'a str) -> Result<J, String> {
        let mut p = P { s: text.as_bytes(), i: 0 };
        p.ws();
        let v = p.value()?;
        p.ws();
        if p.i != p.s.len() {
            return Err(format!("trailing characters at byte {}", p.i));
        }
        Ok(v)
    }
    fn ws(&mut self) {
        while self.i < self.s.len() && matches!(self.s[self.i], b' ' | b'\t' | b'\n' | b'\r') {
            self.i += 1;
        }
    }
    fn value(&mut self) -> Result<J, String> {
        match self.s.get(self.i) {
            None => Err("unexpected end".into()),
            Some(b'{') => self.object(),
            Some(b'[') => self.array(),
            Some(b'"') => Ok(J::Str(self.string()?)),
            Some(b't') => self.lit("true", J::Bool(true)),
            Some(b'f') => self.lit("false", J::Bool(false)),
            Some(b'n') => self.lit("null", J::Null),
            Some(c) if *c == b'-' || c.is_ascii_digit() => self.number(),
            Some(c) => Err(format!("unexpected byte {:#x} at {} (NaN / Infinity are not JSON)", c, self.i)),
        }
    }
    fn lit(&mut self, w: &str, v: J) -> Result<J, String> {
        if self.s[self.i..].starts_with(w.as_bytes()) {
            self.i += w.len();
            Ok(v)
        } else {
            Err(format!("bad literal at {}", self.i))
        }
    }
    fn number(&mut self) -> Result<J, String> {
        let st = self.i;
        if self.s.get(self.i) == Some(&b'-') {
            self.i += 1;
        }
        let d0 = self.i;
        while self.i < self.s.len() && self.s[self.i].is_ascii_digit() {
            self.i += 1;
        }
        if self.i == d0 {
            return Err(format!("bad number at {st}"));
        }
        if self.s[d0] == b'0' && self.i - d0 > 1 {
            return Err(format!("leading zero at {st}"));
        }
        if self.s.get(self.i) == Some(&b'.') {
            self.i += 1;
            let f0 = self.i;
            while self.i < self.s.len() && self.s[self.i].is_ascii_digit() {
                self.i += 1;
            }
            if self.i == f0 {
                return Err(format!("bad fraction at {st}"));
            }
        }
        if matches!(self.s.get(self.i), Some(b'e') | Some(b'E')) {
            self.i += 1;
            if matches!(self.s.get(self.i), Some(b'+') | Some(b'-')) {
                self.i += 1;
            }
            let e0 = self.i;
            while self.i < self.s.len() && self.s[self.i].is_ascii_digit() {
                self.i += 1;
            }
            if self.i == e0 {
                return Err(format!("bad exponent at {st}"));
            }
        }
        let t = std::str::from_utf8(&self.s[st..self.i]).unwrap().to_string();
        match t.parse::<f64>() {
            Ok(x) if x.is_finite() => Ok(J::Num(t)),
            _ => Err(format!("number {t} is not finite")),
        }
    }
    fn string(&mut self) -> Result<String, String> {
        self.i += 1;
        let mut out = Vec::new();
        loop {
            match self.s.get(self.i) {
                None => return Err("unterminated string".into()),
                Some(b'"') => {
                    self.i += 1;
                    break;
                }
                Some(b'\\') => {
                    self.i += 1;
                    match self.s.get(self.i) {
                        Some(b'"') => out.push(b'"'),
                        Some(b'\\') => out.push(b'\\'),
                        Some(b'/') => out.push(b'/'),
                        Some(b'b') => out.push(8),
                        Some(b'f') => out.push(12),
                        Some(b'n') => out.push(b'\n'),
                        Some(b'r') => out.push(b'\r'),
                        Some(b't') => out.push(b'\t'),
                        Some(b'u') => {
                            let h = self.s.get(self.i + 1..self.i + 5).ok_or("short \\u escape")?;
                            let cp = u32::from_str_radix(std::str::from_utf8(h).map_err(|e| e.to_string())?, 16).map_err(|e| e.to_string())?;
                            let ch = char::from_u32(cp).unwrap_or('\u{fffd}');
                            let mut b = [0u8; 4];
                            out.extend_from_slice(ch.encode_utf8(&mut b).as_bytes());
                            self.i += 4;
                        }
                        _ => return Err(format!("bad escape at {}", self.i)),
                    }
                    self.i += 1;
                }
                Some(c) if *c < 0x20 => return Err(format!("raw control character {:#x} in string at {}", c, self.i)),
                Some(c) => {
                    out.push(*c);
                    self.i += 1;
                }
            }
        }
        String::from_utf8(out).map_err(|e| e.to_string())
    }
    fn array(&mut self) -> Result<J, String> {
        self.i += 1;
        let mut v = Vec::new();
        self.ws();
        if self.s.get(self.i) == Some(&b']') {
            self.i += 1;
            return Ok(J::Arr(v));
        }
        loop {
            self.ws();
            v.push(self.value()?);
            self.ws();
            match self.s.get(self.i) {
                Some(b',') => self.i += 1,
                Some(b']') => {
                    self.i += 1;
                    return Ok(J::Arr(v));
                }
                _ => return Err(format!("expected , or ] at {}", self.i)),
            }
        }
    }
    fn object(&mut self) -> Result<J, String> {
        self.i += 1;
        let mut v: Vec<(String, J)> = Vec::new();
        self.ws();
        if self.s.get(self.i) == Some(&b'}') {
            self.i += 1;
            return Ok(J::Obj(v));
        }
        loop {
            self.ws();
            if self.s.get(self.i) != Some(&b'"') {
                return Err(format!("expected a key at {}", self.i));
            }
            let k = self.string()?;
            self.ws();
            if self.s.get(self.i) != Some(&b':') {
                return Err(format!("expected : at {}", self.i));
            }
            self.i += 1;
            self.ws();
            let val = self.value()?;
            if v.iter().any(|(k2, _)| *k2 == k) {
                return Err(format!("duplicate key \"{k}\""));
            }
            v.push((k, val));
            self.ws();
            match self.s.get(self.i) {
                Some(b',') => self.i += 1,
                Some(b'}') => {
                    self.i += 1;
                    return Ok(J::Obj(v));
                }
                _ => return Err(format!("expected , or }} at {}", self.i)),
            }
        }
    }
}

impl J {
    pub fn get(&self, k: &str) -> Option<&J> {
        match self {
            J::Obj(v) => v.iter().find(|(a, _)| a == k).map(|(_, b)| b),
            _ => None,
        }
    }
    pub fn as_str(&self) -> Option<&str> {
        match self {
            J::Str(s) => Some(s),
            _ => None,
        }
    }
}

// ---------------------------------------------------------------------------
// a serde Serializer that only looks for non-finite floats (serde_json writes
// them as null, which a reader cannot tell from an absent value)

#[derive(Debug)]
pub struct NonFinite(pub String);
impl std::fmt::Display for NonFinite {
    fn fmt(&self, f: &mut std::fmt::Formatter<'_>) -> std::fmt::Result {
        write!(f, "{}", self.0)
    }
}
impl std::error::Error for NonFinite {}
impl ser::Error for NonFinite {
    fn custom<T: std::fmt::Display>(msg: T) -> Self {
        NonFinite(format!("custom:{msg}"))
    }
}

pub struct FiniteCheck;
pub struct Compound;

macro_rules! ok_prims {
    ($($f:ident: $t:ty),*) => { $(fn $f(self, _v: $t) -> Result<(), NonFinite> { Ok(()) })* };
}

impl ser::Serializer for FiniteCheck {
    type Ok = ();
    type Error = NonFinite;
    type SerializeSeq = Compound;
    type SerializeTuple = Compound;
    type SerializeTupleStruct = Compound;
    type SerializeTupleVariant = Compound;
    type SerializeMap = Compound;
    type SerializeStruct = Compound;
    type SerializeStructVariant = Compound;
    ok_prims!(serialize_bool: bool, serialize_i8: i8, serialize_i16: i16, serialize_i32: i32, serialize_i64: i64, serialize_u8: u8, serialize_u16: u16, serialize_u32: u32, serialize_u64: u64, serialize_char: char, serialize_str: &str, serialize_bytes: &[u8]);
    fn serialize_f32(self, v: f32) -> Result<(), NonFinite> {
        if v.is_finite() {
            Ok(())
        } else {
            Err(NonFinite(format!("non-finite:{v}")))
        }
    }
    fn serialize_f64(self, v: f64) -> Result<(), NonFinite> {
        if v.is_finite() {
            Ok(())
        } else {
            Err(NonFinite(format!("non-finite:{v}")))
        }
    }
    fn serialize_none(self) -> Result<(), NonFinite> {
        Ok(())
    }
    fn serialize_some<T: ?Sized + Serialize>(self, v: &T) -> Result<(), NonFinite> {
        v.serialize(FiniteCheck)
    }
    fn serialize_unit(self) -> Result<(), NonFinite> {
        Ok(())
    }
    fn serialize_unit_struct(self, _: &'static str) -> Result<(), NonFinite> {
        Ok(())
    }
    fn serialize_unit_variant(self, _: &'static str, _: u32, _: &'static str) -> Result<(), NonFinite> {
        Ok(())
    }
    fn serialize_newtype_struct<T: ?Sized + Serialize>(self, _: &'static str, v: &T) -> Result<(), NonFinite> {
        v.serialize(FiniteCheck)
    }
    fn serialize_newtype_variant<T: ?Sized + Serialize>(self, _: &'static str, _: u32, _: &'static str, v: &T) -> Result<(), NonFinite> {
        v.serialize(FiniteCheck)
    }
    fn serialize_seq(self, _: Option<usize>) -> Result<Compound, NonFinite> {
        Ok(Compound)
    }
    fn serialize_tuple(self, _: usize) -> Result<Compound, NonFinite> {
        Ok(Compound)
    }
    fn serialize_tuple_struct(self, _: &'static str, _: usize) -> Result<Compound, NonFinite> {
        Ok(Compound)
    }
    fn serialize_tuple_variant(self, _: &'static str, _: u32, _: &'static str, _: usize) -> Result<Compound, NonFinite> {
        Ok(Compound)
    }
    fn serialize_map(self, _: Option<usize>) -> Result<Compound, NonFinite> {
        Ok(Compound)
    }
    fn serialize_struct(self, _: &'static str, _: usize) -> Result<Compound, NonFinite> {
        Ok(Compound)
    }
    fn serialize_struct_variant(self, _: &'static str, _: u32, _: &'static str, _: usize) -> Result<Compound, NonFinite> {
        Ok(Compound)
    }
}

fn named<T: ?Sized + Serialize>(key: &str, v: &T) -> Result<(), NonFinite> {
    v.serialize(FiniteCheck).map_err(|e| if e.0.starts_with("non-finite:") { NonFinite(format!("{}@{key}", e.0)) } else { e })
}

impl ser::SerializeSeq for Compound {
    type Ok = ();
    type Error = NonFinite;
    fn serialize_element<T: ?Sized + Serialize>(&mut self, v: &T) -> Result<(), NonFinite> {
        v.serialize(FiniteCheck)
    }
    fn end(self) -> Result<(), NonFinite> {
        Ok(())
    }
}
impl ser::SerializeTuple for Compound {
    type Ok = ();
    type Error = NonFinite;
    fn serialize_element<T: ?Sized + Serialize>(&mut self, v: &T) -> Result<(), NonFinite> {
        v.serialize(FiniteCheck)
    }
    fn end(self) -> Result<(), NonFinite> {
        Ok(())
    }
}
impl ser::SerializeTupleStruct for Compound {
    type Ok = ();
    type Error = NonFinite;
    fn serialize_field<T: ?Sized + Serialize>(&mut self, v: &T) -> Result<(), NonFinite> {
        v.serialize(FiniteCheck)
    }
    fn end(self) -> Result<(), NonFinite> {
        Ok(())
    }
}
impl ser::SerializeTupleVariant for Compound {
    type Ok = ();
    type Error = NonFinite;
    fn serialize_field<T: ?Sized + Serialize>(&mut self, v: &T) -> Result<(), NonFinite> {
        v.serialize(FiniteCheck)
    }
    fn end(self) -> Result<(), NonFinite> {
        Ok(())
    }
}
impl ser::SerializeMap for Compound {
    type Ok = ();
    type Error = NonFinite;
    fn serialize_key<T: ?Sized + Serialize>(&mut self, _k: &T) -> Result<(), NonFinite> {
        Ok(())
    }
    fn serialize_value<T: ?Sized + Serialize>(&mut self, v: &T) -> Result<(), NonFinite> {
        v.serialize(FiniteCheck)
    }
    fn end(self) -> Result<(), NonFinite> {
        Ok(())
    }
}
impl ser::SerializeStruct for Compound {
    type Ok = ();
    type Error = NonFinite;
    fn serialize_field<T: ?Sized + Serialize>(&mut self, k: &'static str, v: &T) -> Result<(), NonFinite> {
        named(k, v)
    }
    fn end(self) -> Result<(), NonFinite> {
        Ok(())
    }
}
impl ser::SerializeStructVariant for Compound {
    type Ok = ();
    type Error = NonFinite;
    fn serialize_field<T: ?Sized + Serialize>(&mut self, k: &'static str, v: &T) -> Result<(), NonFinite> {
        named(k, v)
    }
    fn end(self) -> Result<(), NonFinite> {
        Ok(())
    }
}

// ---------------------------------------------------------------------------

/// code-level coordinates of a frame: DF, and for extended squitters TC / subtype
pub fn coords(bytes: &[u8]) -> String {
    let df = bytes[0] >> 3;
    if (df == 17 || df == 18) && bytes.len() == 14 {
        format!("DF{df}:tc={}:st={}", bytes[4] >> 3, bytes[4] & 7)
    } else if df >= 24 {
        "DF24".to_string()
    } else {
        format!("DF{df}")
    }
}

/// The C07 oracle on one accepted message. Returns the JSON text when it serialises.
pub fn judge(rep: &Report, bytes: &[u8], msg: &Message) -> Option<String> {
    let wit = json!({"frame": hexs(bytes)});
    let co = coords(bytes);
    let text = match guarded(|| serde_json::to_string(msg)) {
        Err(p) => {
            rep.violation(&format!("panic:serialize:{co}:{}", panic_class(&p)), format!("serialising {} panicked: {p}", hexs(bytes)), wit);
            return None;
        }
        Ok(Err(e)) => {
            rep.violation(&format!("serialize:{co}"), format!("message decoded from {} cannot be serialised: {e}", hexs(bytes)), wit);
            return None;
        }
        Ok(Ok(t)) => t,
    };
    if text.contains('\n') || text.contains('\r') {
        rep.violation(&format!("multi-line:{co}"), format!("JSON of {} spans several lines", hexs(bytes)), wit.clone());
    }
    let doc = match P::parse_document(&text) {
        Ok(J::Obj(o)) => J::Obj(o),
        Ok(_) => {
            rep.violation(&format!("not-an-object:{co}"), format!("JSON of {} is not an object: {text}", hexs(bytes)), wit);
            return Some(text);
        }
        Err(e) => {
            let kind = if e.starts_with("duplicate key") { format!("duplicate-key:{co}:{}", e.split('"').nth(1).unwrap_or("")) } else { format!("malformed:{co}") };
            rep.violation(&kind, format!("JSON of {} is rejected by a strict reader: {e}: {text}", hexs(bytes)), wit);
            return Some(text);
        }
    };
    if let Err(e) = msg.serialize(FiniteCheck) {
        if e.0.starts_with("non-finite:") {
            rep.violation(&format!("non-finite:{co}:{}", e.0.split('@').nth(1).unwrap_or("")), format!("message decoded from {} reports a non-finite number ({}): {text}", hexs(bytes), e.0), wit.clone());
        }
    }
    let df = bytes[0] >> 3;
    if [0u8, 4, 5, 11, 16, 17, 18, 20, 21].contains(&df) {
        let want_df = df.to_string();
        if doc.get("df").and_then(|x| x.as_str()) != Some(want_df.as_str()) {
            rep.violation(&format!("df-member:{co}"), format!("frame {} has DF {df} but JSON says df={:?}", hexs(bytes), doc.get("df")), wit.clone());
        }
        let addr = if matches!(df, 11 | 17 | 18) { ((bytes[1] as u32) << 16) | ((bytes[2] as u32) << 8) | bytes[3] as u32 } else { ref_remainder(bytes) };
        let want = format!("{addr:06x}");
        if doc.get("icao24").and_then(|x| x.as_str()) != Some(want.as_str()) {
            rep.violation(&format!("icao24-member:{co}"), format!("frame {} carries address {want} but JSON says icao24={:?}", hexs(bytes), doc.get("icao24")), wit.clone());
        }
    }
    // timed record: frame kept as lowercase hex; decoding that hex again gives the same members
    // metadata as the receivers fill it in (two receptions, every optional member present in one of them)
    let metadata = vec![
        rs1090::decode::SensorMetadata { system_timestamp: 1.5, gnss_timestamp: Some(1.25), nanoseconds: Some(123_456_789), rssi: Some(-12.5), serial: 17, name: Some("rx-a".to_string()), ..Default::default() },
        rs1090::decode::SensorMetadata { system_timestamp: 1.75, gnss_timestamp: None, nanoseconds: None, rssi: None, serial: 18, name: None, ..Default::default() },
    ];
    // the record's own time stamp runs through ordinary, extreme and non-finite values (chosen by the frame's bytes, so
    // that every message shape meets every kind of stamp somewhere in the sweep)
    const STAMPS: [f64; 10] = [1.5, 0.0, 1_700_000_000.123_456, f64::NAN, f64::INFINITY, f64::NEG_INFINITY, f64::MAX, 1e-310, -1.0, 1.8e302];
    let pick = bytes.iter().fold(0usize, |a, b| a.wrapping_mul(31).wrapping_add(*b as usize)) % STAMPS.len();
    let tm = TimedMessage { timestamp: STAMPS[pick], frame: bytes.to_vec(), message: Some(msg.clone()), metadata, decode_time: Some(0.001), ..Default::default() };
    match guarded(|| serde_json::to_string(&tm)) {
        Ok(Ok(tt)) => match P::parse_document(&tt) {
            Ok(td) => {
                let hexframe = td.get("frame").and_then(|x| x.as_str()).unwrap_or("").to_string();
                if hexframe != hexs(bytes) {
                    rep.violation(&format!("timed:frame:{co}"), format!("timed record of {} shows frame={hexframe:?}", hexs(bytes)), wit.clone());
                } else if let J::Obj(members) = &doc {
                    for (k, v) in members {
                        if td.get(k) != Some(v) {
                            rep.violation(&format!("timed:member:{co}"), format!("timed record of {} lacks or changes member {k}", hexs(bytes)), wit.clone());
                            break;
                        }
                    }
                    let again = Message::try_from(unhex(&hexframe).as_slice()).ok().and_then(|m| serde_json::to_string(&m).ok());
                    if again.as_deref() != Some(text.as_str()) {
                        rep.violation(&format!("timed:redecode:{co}"), format!("decoding the hex of the timed record of {} again gives different members", hexs(bytes)), wit.clone());
                    }
                }
            }
            Err(e) => {
                let kind = if e.starts_with("duplicate key") { format!("timed:duplicate-key:{co}:{}", e.split('"').nth(1).unwrap_or("")) } else { format!("timed:malformed:{co}") };
                rep.violation(&kind, format!("timed record of {} is rejected by a strict reader: {e}", hexs(bytes)), wit.clone());
            }
        },
        Ok(Err(e)) => rep.violation(&format!("timed:serialize:{co}"), format!("timed record of {} cannot be serialised: {e}", hexs(bytes)), wit.clone()),
        Err(p) => rep.violation(&format!("panic:timed:{co}"), format!("serialising the timed record of {} panicked: {p}", hexs(bytes)), wit.clone()),
    }
    Some(text)
}

pub struct V<'a> {
    pub rep: &'a Report,
    pub shapes: Mutex<BTreeMap<String, u64>>,
}

/// the set of member names of a JSON object, nested objects in brackets: the "shape" of a message
fn shape(j: &J) -> String {
    match j {
        J::Obj(v) => {
            let mut ks: Vec<String> = v.iter().map(|(k, x)| if matches!(x, J::Obj(_)) { format!("{k}{{{}}}", shape(x)) } else { k.clone() }).collect();
            ks.sort();
            ks.join(",")
        }
        _ => String::new(),
    }
}

impl Visitor for V<'_> {
    fn frame(&self, _group: &str, bytes: &[u8], r: &Decoded) {
        if let Ok(Ok(msg)) = r {
            if let Some(text) = judge(self.rep, bytes, msg) {
                // distinct shapes seen (vacuity / coverage measure); cheap filter on length first
                if let Ok(doc) = P::parse_document(&text) {
                    let s = format!("{}|{}", coords(bytes).split(":st=").next().unwrap_or(""), shape(&doc));
                    let mut g = self.shapes.lock().unwrap();
                    if g.len() < 100_000 {
                        *g.entry(s).or_insert(0) += 1;
                    }
                }
            }
        }
    }
    fn register(&self, _name: &str, _mb: &[u8; 7], _r: &RegOut) {}
}

/// "A timed record keeps the input frame as hex, so decoding that hex again gives the same fields": whoever reads the
/// record decodes the hex in ANOTHER process, with nothing decoded before. The record of frame `b` written right
/// after frame `a` was decoded is therefore compared with what a fresh thread decodes from the record's own hex.
fn record_after(rep: &Report, a: &[u8], b: &[u8]) -> u64 {
    let _ = fspace::decode(a);
    let Ok(Ok(m)) = fspace::decode(b) else { return 1 };
    let tm = TimedMessage { timestamp: 1.5, frame: b.to_vec(), message: Some(m), metadata: vec![], decode_time: None, ..Default::default() };
    let Ok(Ok(text)) = guarded(|| serde_json::to_string(&tm)) else { return 1 };
    let Ok(doc) = serde_json::from_str::<Value>(&text) else { return 1 };
    let hexframe = doc.get("frame").and_then(|x| x.as_str()).unwrap_or("").to_string();
    let g = unhex(&hexframe);
    let again = std::thread::spawn(move || Message::try_from(g.as_slice()).ok().and_then(|m| serde_json::to_string(&m).ok()).and_then(|t| serde_json::from_str::<Value>(&t).ok())).join().ok().flatten();
    let Some(Value::Object(fresh)) = again else {
        rep.violation(&format!("timed:redecode:sequence:DF{}", b[0] >> 3), format!("the record of {} (written right after {}) carries a frame that a fresh decoder rejects", hexs(b), hexs(a)), json!({"frame": hexs(b), "after": hexs(a), "group": "sequence"}));
        return 1;
    };
    // every member of the freshly decoded message must be in the record with the same value, and the record must
    // not have other members than those and the ones of the timed wrapper
    let rec = doc.as_object().cloned().unwrap_or_default();
    let differs = fresh.iter().find(|(k, v)| rec.get(*k) != Some(v)).map(|(k, _)| k.clone()).or_else(|| rec.keys().find(|k| !fresh.contains_key(*k) && !matches!(k.as_str(), "timestamp" | "frame" | "metadata" | "decode_time")).cloned());
    if let Some(k) = differs {
        rep.violation(&format!("timed:redecode:sequence:DF{}", b[0] >> 3), format!("the record of {} written right after {} was decoded says {k}={} but decoding its frame in a fresh decoder gives {}", hexs(b), hexs(a), rec.get(&k).unwrap_or(&Value::Null), fresh.get(&k).unwrap_or(&Value::Null)), json!({"frame": hexs(b), "after": hexs(a), "group": "sequence"}));
    }
    1
}

fn sequences(ctx: &Ctx, rep: &Report) -> u64 {
    let bases = fspace::sequence_bases();
    let n = std::sync::atomic::AtomicU64::new(0);
    par_items(ctx.threads, bases.len(), |bi| {
        let a = &bases[bi];
        let es = a[0] >> 3 == 17 || a[0] >> 3 == 18;
        let mut c = 0;
        for bit in 0..a.len() * 8 {
            let mut b = a.clone();
            b[bit / 8] ^= 0x80 >> (bit % 8);
            if es && bit < 88 {
                seal(&mut b, 0);
            }
            c += record_after(rep, a, &b);
            c += record_after(rep, &b, a);
        }
        for other in &bases {
            c += record_after(rep, other, a);
        }
        n.fetch_add(c, std::sync::atomic::Ordering::Relaxed);
    });
    let t = n.load(std::sync::atomic::Ordering::Relaxed);
    rep.part("records written right after a related frame was decoded, re-decoded from their hex by a fresh thread", t, json!({"base_frames": bases.len()}));
    t
}

pub fn run(ctx: &Ctx, rep: &Report) {
    rep.set_rule("every message accepted in the shared frame space (dispatch, headers, extended-squitter windows, complete field sweeps, Comm-B frames) is serialised; non-trivial = distinct (DF, type code, member-name set) shapes observed");
    rep.assume("timed records carry two fixed, finite metadata entries (receiver metadata is produced outside the decoder)");
    // self-test of the strict reader and of the finiteness probe
    let selftest = [("{\"a\":1,\"a\":2}", false), ("{\"a\":NaN}", false), ("{\"a\":1}\n{\"b\":2}", false), ("{\"a\":[1,2,{\"b\":null}],\"c\":\"x\\n\"}", true), ("{\"a\":1e999}", false), ("{\"a\":{\"b\":1,\"b\":1}}", false)];
    for (t, ok) in selftest {
        if P::parse_document(t).is_ok() != ok {
            rep.violation("harness:json-reader", format!("strict reader self-test failed on {t}"), json!({}));
            return;
        }
    }
    if f64::NAN.serialize(FiniteCheck).is_ok() || Some(vec![1.0f32, f32::INFINITY]).serialize(FiniteCheck).is_ok() || (1.0f64).serialize(FiniteCheck).is_err() {
        rep.violation("harness:finite-probe", "finiteness probe self-test failed".into(), json!({}));
        return;
    }
    let v = V { rep, shapes: Mutex::new(BTreeMap::new()) };
    let nseq = sequences(ctx, rep);
    let c = fspace::sweep(ctx, rep, &v, false);
    let frames = c.frames.load(std::sync::atomic::Ordering::Relaxed) + nseq;
    let accepted = c.accepted.load(std::sync::atomic::Ordering::Relaxed);
    let shapes = v.shapes.lock().unwrap();
    let mut per_df: BTreeMap<String, u64> = BTreeMap::new();
    for k in shapes.keys() {
        *per_df.entry(k.split(':').next().unwrap_or("").split('|').next().unwrap_or("").to_string()).or_insert(0) += 1;
    }
    for (k, n) in &per_df {
        rep.outcome(&format!("{k}: distinct shapes"), *n);
    }
    for (k, _) in shapes.iter().step_by(shapes.len() / 6 + 1) {
        rep.sample(json!({"shape": k}));
    }
    let ex = df17(5, 0x4840d6, &me_bds09_gs(1, 0, 0, 0, 0, 100, 1, 200, 0, 0, 10, 0, 5), 0);
    if let Ok(m) = Message::try_from(ex.as_slice()) {
        rep.sample(json!({"frame": hexs(&ex), "json": serde_json::to_string(&m).unwrap_or_default()}));
    }
    rep.eval(frames);
    rep.trans(accepted);
    rep.state(shapes.len() as u64);
    rep.nontriv(shapes.len() as u64);
    let p = fspace::plan(ctx);
    rep.set_bound(&format!("the frame space of C01 (windows of {} bits on DF17, {} bits on DF18 cf {:?}, complete per-field sweeps, Comm-B frames at step {})", p.w, p.w18, p.cfs, p.commb_step));
    if !ctx.thorough() {
        rep.not_exhaustive("quick tier: 8-bit windows, one DF18 control field with windows");
    }
}

pub fn replay(w: &Value, rep: &Report) {
    let f = unhex(w["frame"].as_str().unwrap_or(""));
    if let Some(a) = w.get("after").and_then(|x| x.as_str()) {
        record_after(rep, &unhex(a), &f);
    } else if let Ok(Ok(m)) = fspace::decode(&f) {
        judge(rep, &f, &m);
    }
    rep.trans(1);
    rep.state(1);
    rep.sample(w.clone());
    rep.outcome("replayed", 1);
}

//! The shared frame space of C01 / C07 / C08 (DESIGN.md 4/C01 (b)-(e)):
//! an exhaustive component sweep. Every field group of every DF / type code /
//! register is taken through all its values (16-bit windows at stride 4, or
//! 12-bit windows in the quick tier) on fixed backgrounds; the decoder is run
//! on each frame and the outcome handed to a property-specific visitor.

use crate::common::*;
use crate::frames::*;
use rs1090::decode::bds::{bds05, bds10, bds17, bds18, bds19, bds20, bds21, bds30, bds40, bds44, bds45, bds50, bds60, bds65};
use rs1090::decode::Message;
use rs1090::prelude::DekuError;
use serde::Serialize;
use serde_json::Value;
use std::sync::atomic::{AtomicU64, Ordering};

pub type Decoded = Result<Result<Message, String>, String>;
/// Ok(Some(json, debug)) accepted, Ok(None) rejected, Err(panic)
pub type RegOut = Result<Option<(Value, String)>, String>;

pub trait Visitor: Sync {
    /// one frame of the space, already decoded (outer Err = panic in the decoder)
    fn frame(&self, group: &str, bytes: &[u8], r: &Decoded);
    /// one direct call of a Comm-B register reader (the call commb.rs makes)
    fn register(&self, name: &str, mb: &[u8; 7], r: &RegOut);
}

pub fn decode(bytes: &[u8]) -> Decoded {
    guarded_watch(bytes, || Message::try_from(bytes).map_err(|e| e.to_string()))
}

fn reg<T>(mb: &[u8; 7]) -> RegOut
where
    T: for<'a> TryFrom<&'a [u8], Error = DekuError> + Serialize + std::fmt::Debug,
{
    guarded(|| match T::try_from(mb.as_slice()) {
        Ok(v) => {
            let j = serde_json::to_value(&v).unwrap_or(Value::Null);
            Some((j, format!("{v:?}")))
        }
        Err(_) => None,
    })
}

pub const REGISTERS: [&str; 14] = ["bds05", "bds10", "bds17", "bds18", "bds19", "bds20", "bds21", "bds30", "bds40", "bds44", "bds45", "bds50", "bds60", "bds65"];

pub fn call_register(name: &str, mb: &[u8; 7]) -> RegOut {
    match name {
        "bds05" => reg::<bds05::AirbornePosition>(mb),
        "bds10" => reg::<bds10::DataLinkCapability>(mb),
        "bds17" => reg::<bds17::CommonUsageGICBCapabilityReport>(mb),
        "bds18" => reg::<bds18::GICBCapabilityReportPart1>(mb),
        "bds19" => reg::<bds19::GICBCapabilityReportPart2>(mb),
        "bds20" => reg::<bds20::AircraftIdentification>(mb),
        "bds21" => reg::<bds21::AircraftAndAirlineRegistrationMarkings>(mb),
        "bds30" => reg::<bds30::ACASResolutionAdvisory>(mb),
        "bds40" => reg::<bds40::SelectedVerticalIntention>(mb),
        "bds44" => reg::<bds44::MeteorologicalRoutineAirReport>(mb),
        "bds45" => reg::<bds45::MeteorologicalHazardReport>(mb),
        "bds50" => reg::<bds50::TrackAndTurnReport>(mb),
        "bds60" => reg::<bds60::HeadingAndSpeedReport>(mb),
        "bds65" => reg::<bds65::AircraftOperationStatus>(mb),
        _ => Ok(None),
    }
}

/// One accepted exemplar MB per register (built by R-FRAME or taken from the
/// repository's own test vectors) — used as window backgrounds.
pub fn exemplar(name: &str) -> [u8; 7] {
    let h = |s: &str| -> [u8; 7] {
        let v = unhex(s);
        let mut a = [0u8; 7];
        a.copy_from_slice(&v[..7]);
        a
    };
    match name {
        "bds05" => me_bds05(11, 0, 0, ac12_q(35000), 0, 0, 93000, 51372),
        "bds10" => h("10010080f50000"),
        "bds17" => h("fa81c100000000"),
        "bds18" => h("0080008fc083f0"),
        "bds19" => h("00018003800080"),
        "bds20" => mb_bds20(&cs_codes("DLH4AB")),
        "bds21" => h("940f19680c0000"),
        "bds30" => h("30000000000000"),
        "bds40" => mb_bds40(Some(2000), Some(2000), Some(2132), None, None),
        "bds44" => h("185bd5cf400000"),
        "bds45" => h("0001fb80000000"),
        "bds50" => mb_bds50(Some(10), Some(100), Some(220), Some(5), Some(225)),
        "bds60" => mb_bds60(Some(200), Some(280), Some(190), Some(5), Some(6)),
        "bds65" => me_bds65(0, 0, 0, 2, 0, 9, 0),
        _ => [0u8; 7],
    }
}

pub struct Counts {
    pub frames: AtomicU64,
    pub accepted: AtomicU64,
    pub reg_calls: AtomicU64,
    pub reg_accepted: AtomicU64,
}

impl Counts {
    pub fn new() -> Self {
        Counts { frames: AtomicU64::new(0), accepted: AtomicU64::new(0), reg_calls: AtomicU64::new(0), reg_accepted: AtomicU64::new(0) }
    }
}

fn visit_frame(v: &dyn Visitor, c: &Counts, group: &str, bytes: &[u8]) {
    let r = decode(bytes);
    c.frames.fetch_add(1, Ordering::Relaxed);
    if matches!(r, Ok(Ok(_))) {
        c.accepted.fetch_add(1, Ordering::Relaxed);
    }
    v.frame(group, bytes, &r);
}

fn visit_reg(v: &dyn Visitor, c: &Counts, name: &str, mb: &[u8; 7]) {
    let r = call_register(name, mb);
    c.reg_calls.fetch_add(1, Ordering::Relaxed);
    if matches!(r, Ok(Some(_))) {
        c.reg_accepted.fetch_add(1, Ordering::Relaxed);
    }
    v.register(name, mb, &r);
}

/// window offsets over `from..to` bits for windows of `w` bits at stride 4
fn offsets(from: usize, to: usize, w: usize) -> Vec<usize> {
    let mut v = Vec::new();
    let mut o = from;
    while o + w <= to {
        v.push(o);
        o += 4;
    }
    if v.last().map(|l| l + w < to).unwrap_or(true) && to >= w + from {
        v.push(to - w);
    }
    v
}

pub struct Plan {
    /// window width in bits (DF17 ME)
    pub w: usize,
    /// window width for the DF18 control fields swept with windows
    pub w18: usize,
    /// window width for the direct register calls
    pub wreg: usize,
    /// step over first byte / value in whole Comm-B frames
    pub commb_step: usize,
    /// 1 = every case of the complete sweeps; n = every n-th (only under a process-level dimension, quick tier)
    pub stride: usize,
    /// DF18 control fields swept with windows
    pub cfs: Vec<u8>,
    /// extra seed-derived backgrounds (non-deciding)
    pub extra_bg: Vec<[u8; 7]>,
    pub joint_step: u32,
    pub thorough: bool,
}

pub fn plan(ctx: &Ctx) -> Plan {
    let mut rng = Rng(ctx.seed ^ 0x5eed);
    let mut extra = Vec::new();
    if ctx.seed != 0 {
        let mut b = [0u8; 7];
        for x in b.iter_mut() {
            *x = rng.next() as u8;
        }
        extra.push(b);
    }
    if !ctx.plain() {
        // a process-level dimension (logging on, statistics on): the same parts over smaller windows
        // (thorough tier: the plain quick plan; quick tier: smaller windows and every 5th case of the complete sweeps (5 is coprime to every loop length, so each field still takes all its values))
        if ctx.thorough() {
            return Plan { w: 8, w18: 8, wreg: 12, commb_step: 8, cfs: vec![2], extra_bg: extra, joint_step: 8, thorough: false, stride: 1 };
        }
        return Plan { w: 5, w18: 5, wreg: 8, commb_step: 32, cfs: vec![2], extra_bg: extra, joint_step: 32, thorough: false, stride: 5 };
    }
    if ctx.thorough() {
        Plan { w: 14, w18: 10, wreg: 16, commb_step: 1, cfs: vec![0, 1, 2, 3, 4, 5, 6, 7], extra_bg: extra, joint_step: 1, thorough: true, stride: 1 }
    } else {
        Plan { w: 8, w18: 8, wreg: 12, commb_step: 8, cfs: vec![2], extra_bg: extra, joint_step: 8, thorough: false, stride: 1 }
    }
}

/// Enumerate the whole frame space. `want_registers`: also make the direct
/// register calls (C01, C08); frames are always visited.
/// Call schedules over the frame space (the decoder as a state machine: whatever it remembers between calls - a ring of
/// recent frames, a memo admitted after n sightings, a list of recent addresses - is filled, wrapped and hit here).
/// Every call of every schedule is handed to the visitor like any other frame, so each property judges every call.
/// For every base frame X: (1) every sequence of up to 5 calls over {X, Y} for three partners Y (another kind of
/// frame, the same frame from another address, a rejected input); (2) X, k distinct other frames, X, X and
/// (3) X, k distinct other frames, Y, Y, X for k on either side of every power of two up to 256.
fn schedules(ctx: &Ctx, rep: &Report, v: &dyn Visitor, c: &Counts) {
    let mut bases = sequence_bases();
    // westward / southward velocity vectors (angles beyond 180 degrees) and a surface position
    bases.push(df17(5, 0x4840d6, &me_bds09_gs(1, 0, 0, 0, 1, 120, 1, 7, 0, 0, 10, 0, 5), 0));
    bases.push(df17(5, 0x4840d6, &me_bds09_gs(1, 0, 0, 0, 1, 3, 0, 250, 0, 1, 10, 0, 5), 0));
    let rejected: Vec<Vec<u8>> = {
        let good = df17(5, 0x4840d6, &me_bds08(4, 0, &cs_codes("KLM1023")), 0);
        let mut bad_crc = good.clone();
        bad_crc[13] ^= 0x01;
        let mut too_long = good.clone();
        too_long.push(0);
        vec![bad_crc, too_long, good[..6].to_vec(), df4_5(4, 0, 0, 0, 0x0001, 0x4840d6)]
    };
    // 300 distinct frames that are accepted (other aircraft, other values)
    let fillers: Vec<Vec<u8>> = (0..300u32)
        .map(|i| {
            let a = 0x100000 + 0x000101 * i;
            match i % 4 {
                0 => df17(5, a, &me_bds09_gs(1, 0, 0, 0, (i & 1) as u8, (20 + i) as u16, ((i >> 1) & 1) as u8, (300 - i) as u16, 0, 0, 10, 0, 5), 0),
                1 => df4_5(4, 0, 0, 0, ac13_q(1000 + 100 * i as i32), a),
                2 => df11(5, a, 0),
                _ => df17(5, a, &me_bds05(11, 0, 0, ac12_q(2000 + 25 * i as i32), 0, (i & 1) as u8, 1000 + i, 2000 + 3 * i), 0),
            }
        })
        .collect();
    let ks: Vec<usize> = if ctx.thorough() { vec![1, 2, 3, 4, 7, 8, 9, 15, 16, 17, 31, 32, 33, 63, 64, 65, 127, 128, 129, 255, 256, 257] } else { vec![1, 2, 3, 7, 8, 9, 15, 16, 17, 31, 32, 33, 64, 65, 128, 129, 256, 257] };
    let n = bases.len();
    par_items(ctx.threads, n, |i| {
        let x = &bases[i];
        let mut other = bases[(i + 1) % n].clone();
        // the same frame from another address
        let mut twin = x.clone();
        let df = twin[0] >> 3;
        if df == 17 || df == 18 || df == 11 {
            twin[2] ^= 0x40;
            let l = twin.len();
            twin[l - 3] = 0;
            twin[l - 2] = 0;
            twin[l - 1] = 0;
            seal(&mut twin, 0);
        } else {
            let l = twin.len();
            twin[l - 2] ^= 0x40;
        }
        if other == *x {
            other = twin.clone();
        }
        let rej = &rejected[i % rejected.len()];
        for y in [&other, &twin, rej] {
            for len in 1..=5usize {
                for code in 0..(1usize << len) {
                    for d in 0..len {
                        visit_frame(v, c, "schedule", if (code >> d) & 1 == 0 { x } else { y });
                    }
                }
            }
            if stopped() {
                return;
            }
        }
        for &k in &ks {
            for y in [None, Some(rej), Some(&other)] {
                visit_frame(v, c, "schedule", x);
                for f in fillers.iter().cycle().skip(i * 7).take(k) {
                    visit_frame(v, c, "schedule", f);
                }
                if let Some(y) = y {
                    visit_frame(v, c, "schedule", y);
                    visit_frame(v, c, "schedule", y);
                }
                visit_frame(v, c, "schedule", x);
                visit_frame(v, c, "schedule", x);
            }
            if stopped() {
                return;
            }
        }
    });
    rep.part("call schedules (short sequences over two frames; rings of up to 257 other frames filled between two calls)", c.frames.load(Ordering::Relaxed), serde_json::json!({"base_frames": n, "ring_sizes": ks}));
}

pub fn sweep(ctx: &Ctx, rep: &Report, v: &dyn Visitor, want_registers: bool) -> Counts {
    let p = plan(ctx);
    let c = Counts::new();
    let addr = 0x4840d6u32;
    schedules(ctx, rep, v, &c);
    // (b) dispatch: all 2^16 values of bytes 0-1 x {7, 14 bytes} x 3 fills
    par_ranges(ctx.threads, 1 << 16, 256, |lo, hi| {
        for hdr in lo..hi {
            for len in [7usize, 14] {
                for fill in [0x00u8, 0xff, 0xa5] {
                    let mut f = vec![fill; len];
                    f[0] = (hdr >> 8) as u8;
                    f[1] = hdr as u8;
                    visit_frame(v, &c, "dispatch", &f);
                    if f[0] >> 3 == 17 || f[0] >> 3 == 18 {
                        // the same with a valid parity, so that DF17 gets past the CRC gate
                        seal(&mut f, 0);
                        visit_frame(v, &c, "dispatch:sealed", &f);
                    }
                }
            }
        }
    });
    rep.part("dispatch (bytes 0-1)", c.frames.load(Ordering::Relaxed), serde_json::json!({"accepted": c.accepted.load(Ordering::Relaxed)}));
    // (c) surveillance headers: FS.DR.UM (2^14) x 4 code backgrounds; all 2^13 codes x 4 header backgrounds
    let code_bgs = [0u16, ac13_q(35000), 0x1fff, 0x0b5a];
    let hdr_bgs = [0u32, 0x3fff, 0x1555, 0x2aaa];
    for df in [0u8, 4, 5, 16, 20, 21] {
        par_ranges(ctx.threads, 1 << 14, 256, |lo, hi| {
            for h in (lo..hi).filter(|h| *h as usize % p.stride == 0) {
                for code in code_bgs {
                    let long = df & 0x10 != 0;
                    let mut f = vec![0u8; if long { 14 } else { 7 }];
                    set_bits(&mut f, 0, 5, df as u64);
                    set_bits(&mut f, 5, 14, h);
                    set_bits(&mut f, 19, 13, code as u64);
                    seal(&mut f, addr);
                    visit_frame(v, &c, "surveillance-header", &f);
                }
            }
        });
        par_ranges(ctx.threads, 1 << 13, 256, |lo, hi| {
            for code in (lo..hi).filter(|x| *x as usize % p.stride == 0) {
                for h in hdr_bgs {
                    let long = df & 0x10 != 0;
                    let mut f = vec![0u8; if long { 14 } else { 7 }];
                    set_bits(&mut f, 0, 5, df as u64);
                    set_bits(&mut f, 5, 14, h as u64);
                    set_bits(&mut f, 19, 13, code);
                    seal(&mut f, addr);
                    visit_frame(v, &c, "surveillance-code", &f);
                }
            }
        });
    }
    // DF16: the 56-bit MV field (ACAS coordination / resolution messages), 8-bit windows at stride 4
    let mv_bgs: Vec<[u8; 7]> = [[0u8; 7], [0xff; 7]].into_iter().chain(variant_backgrounds("bds30")).collect();
    par_ranges(ctx.threads, 13 * mv_bgs.len() as u64, 1, |lo, hi| {
        for i in lo..hi {
            let off = 32 + 4 * (i / mv_bgs.len() as u64) as usize;
            let bg = mv_bgs[(i % mv_bgs.len() as u64) as usize];
            for val in 0..256u64 {
                for first in [0x30u8, 0x00, 0x31, 0xff] {
                    let mut f = vec![0u8; 14];
                    set_bits(&mut f, 0, 5, 16);
                    set_bits(&mut f, 19, 13, ac13_q(35000) as u64);
                    f[4..11].copy_from_slice(&bg);
                    f[4] = first;
                    set_bits(&mut f, off.min(80), 8, val);
                    seal(&mut f, addr);
                    visit_frame(v, &c, "surveillance-mv", &f);
                }
            }
        }
    });
    rep.part("surveillance headers and codes", c.frames.load(Ordering::Relaxed), serde_json::json!({"accepted": c.accepted.load(Ordering::Relaxed)}));
    // (d) extended squitter: all 256 first ME bytes x windows over the other 48 bits x backgrounds
    let mut bgs: Vec<[u8; 7]> = vec![[0u8; 7], [0xffu8; 7]];
    bgs.extend(p.extra_bg.iter().cloned());
    let mut es_kinds: Vec<(u8, u8)> = vec![(17, 5)];
    for cf in &p.cfs {
        es_kinds.push((18, *cf));
    }
    for (df, c3) in &es_kinds {
        let w = if *df == 17 { p.w } else { p.w18 };
        let offs = offsets(8, 56, w);
        let n = 256u64 * offs.len() as u64;
        par_ranges(ctx.threads, n, 1, |lo, hi| {
            for i in lo..hi {
                let first = (i / offs.len() as u64) as u8;
                let off = offs[(i % offs.len() as u64) as usize];
                for bg in &bgs {
                    let mut me = *bg;
                    me[0] = first;
                    for val in 0..(1u64 << w) {
                        set_bits(&mut me, off, w, val);
                        let f = es(*df, *c3, addr, &me, 0);
                        visit_frame(v, &c, if *df == 17 { "DF17:window" } else { "DF18:window" }, &f);
                    }
                    if stopped() {
                        return;
                    }
                }
            }
        });
    }
    // DF18 control fields not swept with windows: first ME byte x 8-bit windows
    for cf in 0..8u8 {
        if p.cfs.contains(&cf) {
            continue;
        }
        par_ranges(ctx.threads, 256, 4, |lo, hi| {
            for first in lo..hi {
                for off in (8..=48).step_by(8) {
                    for bg in &bgs[..if p.thorough { 2 } else { 1 }] {
                        let mut me = *bg;
                        me[0] = first as u8;
                        for val in (0..256u64).step_by(if p.stride > 1 { 2 * p.stride } else { 1 }) {
                            set_bits(&mut me, off, 8, val);
                            visit_frame(v, &c, "DF18:window8", &es(18, cf, addr, &me, 0));
                        }
                    }
                }
            }
        });
    }
    // DF19 and DF24..31: header x fills
    for b0 in (19u16 << 3)..(20u16 << 3) {
        for fill in [0x00u8, 0xff, 0x5a] {
            let mut f = vec![fill; 14];
            f[0] = b0 as u8;
            visit_frame(v, &c, "DF19", &f);
        }
    }
    for b0 in 0xc0u16..=0xff {
        for b1 in [0x00u8, 0xff, 0x37] {
            for fill in [0x00u8, 0xff, 0x5a] {
                let mut f = vec![fill; 14];
                f[0] = b0 as u8;
                f[1] = b1;
                visit_frame(v, &c, "DF24", &f);
            }
        }
    }
    rep.part("extended squitter windows", c.frames.load(Ordering::Relaxed), serde_json::json!({"accepted": c.accepted.load(Ordering::Relaxed), "window_bits_df17": p.w, "window_bits_df18": p.w18, "kinds": es_kinds.len()}));
    // (e) Comm-B registers called directly: windows over all 56 bits x backgrounds
    if want_registers {
        let roffs = offsets(0, 56, p.wreg);
        for name in REGISTERS {
            let mut bgs: Vec<[u8; 7]> = vec![[0u8; 7], exemplar(name), status_background(name)];
            // one background per layout variant (an enum selected by id bits in the middle of the register)
            bgs.extend(variant_backgrounds(name));
            par_ranges(ctx.threads, roffs.len() as u64 * bgs.len() as u64, 1, |lo, hi| {
                for i in lo..hi {
                    let off = roffs[(i as usize) / bgs.len()];
                    let mut mb = bgs[(i as usize) % bgs.len()];
                    for val in 0..(1u64 << p.wreg) {
                        set_bits(&mut mb, off, p.wreg, val);
                        visit_reg(v, &c, name, &mb);
                    }
                }
            });
        }
        // joint domains of context-coupled fields
        let step = p.joint_step;
        // BDS 5,0: roll (10-bit code) x track rate (10-bit code), status bits set
        joint(ctx, 1 << 10, 1 << 10, step, |a, b| mb_bds50(Some(a), Some(100), Some(220), Some(b), Some(225)), "bds50", v, &c);
        // BDS 5,0: ground speed x TAS
        joint(ctx, 1 << 10, 1 << 10, step, |a, b| mb_bds50(Some(10), Some(100), Some(a), Some(5), Some(b)), "bds50", v, &c);
        // BDS 5,0: all track codes
        joint(ctx, 1 << 11, 1, 1, |a, _| mb_bds50(Some(10), Some(a), Some(220), Some(5), Some(225)), "bds50", v, &c);
        // BDS 6,0: IAS x Mach
        joint(ctx, 1 << 10, 1 << 10, step, |a, b| mb_bds60(Some(200), Some(a), Some(b), Some(5), Some(6)), "bds60", v, &c);
        // BDS 6,0: heading, and both rates
        joint(ctx, 1 << 11, 1, 1, |a, _| mb_bds60(Some(a), Some(280), Some(190), Some(5), Some(6)), "bds60", v, &c);
        joint(ctx, 1 << 10, 1 << 10, step, |a, b| mb_bds60(Some(200), Some(280), Some(190), Some(a), Some(b)), "bds60", v, &c);
        // BDS 4,0: both selectors and QNH, every code
        joint(ctx, 1 << 12, 1 << 4, 1, |a, b| mb_bds40(Some(a), Some((a + b * 257) & 0xfff), Some(2132), None, None), "bds40", v, &c);
        joint(ctx, 1 << 12, 1, 1, |a, _| mb_bds40(Some(2000), None, Some(a), Some(5), Some(2)), "bds40", v, &c);
        // BDS 4,4: wind speed (st+9) x direction (9) with exemplar temperature; temperature (sign+10); humidity
        joint(ctx, 1 << 10, 1 << 9, step.min(4), |a, b| mb44(a, b, 0x5cf >> 1, 0, 0), "bds44", v, &c);
        joint(ctx, 1 << 11, 1 << 7, 1, |a, b| mb44(0x200 | 20, 100, a, 0, b), "bds44", v, &c);
        // BDS 3,0 with threat type 2: range x bearing (every pair), altitude x bearing
        joint(ctx, 1 << 7, 1 << 6, 1, |a, b| mb_bds30(2, ((ac13_q(35000) as u32) << 13) | (a << 6) | b), "bds30", v, &c);
        joint(ctx, 1 << 13, 1 << 6, step, |a, b| mb_bds30(2, (a << 13) | (20 << 6) | b), "bds30", v, &c);
        // BDS 4,5: temperature field and the hazard levels
        joint(ctx, 1 << 16, 1, 1, |a, _| mb45(a), "bds45", v, &c);
        rep.part(
            "Comm-B registers (direct calls)",
            c.reg_calls.load(Ordering::Relaxed),
            serde_json::json!({"accepted": c.reg_accepted.load(Ordering::Relaxed), "offsets": roffs.len()}),
        );
    }
    // whole DF20 / DF21 frames: every exemplar, first MB byte x 8-bit windows, conformance with the direct calls
    for df in [20u8, 21] {
        for name in REGISTERS {
            let ex = exemplar(name);
            let code = if df == 20 { ac13_q(35000) } else { id13(1, 2, 3, 4) };
            visit_frame(v, &c, "commb:exemplar", &df20_21(df, 0, 0, 0, code, &ex, addr));
            let step = p.commb_step;
            par_ranges(ctx.threads, 256 / step as u64, 1, |lo, hi| {
                for first in lo..hi {
                    for off in (8..=48).step_by(8) {
                        let mut mb = ex;
                        mb[0] = (first * step as u64) as u8;
                        for val in (0..256u64).step_by(step) {
                            set_bits(&mut mb, off, 8, val);
                            visit_frame(v, &c, "commb:window8", &df20_21(df, 0, 0, 0, code, &mb, addr));
                        }
                        // the other flight statuses (and a downlink request), on a coarser grid of values
                        for fs in 1..8u8 {
                            for val in (0..256u64).step_by(if step == 1 { 2 } else { step * 4 }) {
                                set_bits(&mut mb, off, 8, val);
                                visit_frame(v, &c, "commb:window8:fs", &df20_21(df, fs, (fs as u64 * 5) as u8 & 31, 0, code, &mb, addr));
                            }
                        }
                    }
                }
            });
        }
    }
    rep.part("Comm-B replies: exemplars and windows under every flight status", c.frames.load(Ordering::Relaxed), serde_json::json!({"accepted": c.accepted.load(Ordering::Relaxed)}));
    // joint ADS-B domains that matter for ranges: velocity sign/magnitude pairs, headings, surface movement x track
    let vstep = if p.thorough { 1 } else { 16 * p.stride };
    for st in [1u8, 2] {
        par_ranges(ctx.threads, 2048 / vstep as u64, 8, |lo, hi| {
            for a in lo..hi {
                let a = (a * vstep as u64) as u16;
                for b in (0..2048u16).step_by(vstep) {
                    let me = me_bds09_gs(st, 0, 0, 0, (a >> 10) as u8, a & 0x3ff, (b >> 10) as u8, b & 0x3ff, 0, 0, 10, 0, 5);
                    visit_frame(v, &c, "velocity:ground", &df17(5, addr, &me, 0));
                }
                // extremes of the other component are always included
                for b in [0u16, 1, 1023, 1024, 1025, 2047] {
                    let me = me_bds09_gs(st, 0, 0, 0, (a >> 10) as u8, a & 0x3ff, (b >> 10) as u8, b & 0x3ff, 0, 0, 10, 0, 5);
                    visit_frame(v, &c, "velocity:ground", &df17(5, addr, &me, 0));
                    let me = me_bds09_gs(st, 0, 0, 0, (b >> 10) as u8, b & 0x3ff, (a >> 10) as u8, a & 0x3ff, 0, 0, 10, 0, 5);
                    visit_frame(v, &c, "velocity:ground", &df17(5, addr, &me, 0));
                }
            }
        });
    }
    // every pair of boundary codes of the two components (both zero, both one, sign bit with magnitude 0 or 1, ...)
    for st in [1u8, 2] {
        let ext = [0u16, 1, 2, 3, 1022, 1023, 1024, 1025, 1026, 2046, 2047];
        for a in ext {
            for b in ext {
                for vr in [0u16, 1, 511] {
                    let me = me_bds09_gs(st, 0, 0, 0, (a >> 10) as u8, a & 0x3ff, (b >> 10) as u8, b & 0x3ff, 0, 0, vr, 0, 5);
                    visit_frame(v, &c, "velocity:ground", &df17(5, addr, &me, 0));
                    visit_frame(v, &c, "velocity:ground", &df18(2, addr, &me, 0));
                }
            }
        }
    }
    for st in [3u8, 4] {
        par_ranges(ctx.threads, 2048, 64, |lo, hi| {
            for h in lo..hi {
                for a in [0u16, 1, 2, 500, 1022, 1023, 1024 | 1, 1024 | 1023] {
                    let me = me_bds09_as(st, 0, 0, 0, (h >> 10) as u8, (h & 0x3ff) as u16, (a >> 10) as u8, a & 0x3ff, 1, 1, 511, 1, 127);
                    visit_frame(v, &c, "velocity:air", &df17(5, addr, &me, 0));
                }
            }
        });
        par_ranges(ctx.threads, 2048, 64, |lo, hi| {
            for a in lo..hi {
                for vr in [0u16, 1, 2, 510, 511] {
                    for sv in [0u8, 1] {
                        let me = me_bds09_as(st, 0, 0, 0, 1, 512, (a >> 10) as u8, (a & 0x3ff) as u16, 0, sv, vr, sv, (vr & 0x7f) as u8);
                        visit_frame(v, &c, "velocity:air", &df17(5, addr, &me, 0));
                    }
                }
            }
        });
    }
    rep.part("velocity component pairs and headings", c.frames.load(Ordering::Relaxed), serde_json::json!({"accepted": c.accepted.load(Ordering::Relaxed)}));
    let mut batch: Vec<(&'static str, Vec<u8>)> = Vec::new();
    // every vertical-rate code x sign x source; every GNSS-baro difference
    for vr in 0..512u16 {
        for flags in 0..8u8 {
            let me = me_bds09_gs(1, 0, 0, 0, 0, 100, 1, 200, flags & 1, (flags >> 1) & 1, vr, (flags >> 2) & 1, (vr & 0x7f) as u8);
            batch.push(("velocity:vrate", df17(5, addr, &me, 0)));
        }
    }
    // surface: all movement codes x all track codes x status, TC 5..8
    for tc in 5..=8u8 {
        for mov in 0..128u8 {
            for trk in 0..128u8 {
                for s in [0u8, 1] {
                    batch.push(("surface", df17(5, addr, &me_bds06(tc, mov, s, trk, 0, 0, 1000, 2000), 0)));
                }
            }
        }
    }
    // airborne position: all 4096 altitude codes x TC 9..18, 20..22
    for tc in (9..=18u8).chain(20..=22) {
        for ac in 0..4096u16 {
            batch.push(("airborne:altitude", df17(5, addr, &me_bds05(tc, 0, 0, ac, 0, 0, 93000, 51372), 0)));
        }
    }
    // identification: every character code at every position, every TC/CA
    for tc in 1..=4u8 {
        for ca in 0..8u8 {
            for pos in 0..8 {
                for code in 0..64u8 {
                    let mut cs = cs_codes("ABCDEFGH");
                    cs[pos] = code;
                    batch.push(("identification", df17(5, addr, &me_bds08(tc, ca, &cs), 0)));
                }
            }
        }
    }
    for pos in 0..8 {
        for code in 0..64u8 {
            let mut cs = cs_codes("ABCDEFGH");
            cs[pos] = code;
            for df in [20u8, 21] {
                batch.push(("identification:bds20", df20_21(df, 0, 0, 0, ac13_q(35000), &mb_bds20(&cs), addr)));
            }
        }
    }
    // character fields filled with ONE character, and runs of it at either end (all 64 codes): BDS 0,8 and BDS 2,0
    // call signs, BDS 2,1 registration (7 characters) and airline (2 characters)
    for code in 0..64u8 {
        for k in 1..=8usize {
            for at_end in [false, true] {
                let mut cs = cs_codes("ABCDEFGH");
                for i in 0..k {
                    cs[if at_end { 7 - i } else { i }] = code;
                }
                batch.push(("identification:runs", df17(5, addr, &me_bds08(4, 0, &cs), 0)));
                batch.push(("identification:bds20:runs", df20_21(20, 0, 0, 0, ac13_q(35000), &mb_bds20(&cs), addr)));
                // BDS 2,1: status, 7 x 6 bits, status, 2 x 6 bits
                for (s1, s2) in [(1u64, 0u64), (1, 1), (0, 1)] {
                    let mut mb = [0u8; 7];
                    set_bits(&mut mb, 0, 1, s1);
                    for (i, c) in cs.iter().take(7).enumerate() {
                        set_bits(&mut mb, 1 + 6 * i, 6, *c as u64);
                    }
                    set_bits(&mut mb, 43, 1, s2);
                    set_bits(&mut mb, 44, 6, cs[7] as u64);
                    set_bits(&mut mb, 50, 6, code as u64);
                    batch.push(("bds21:runs", df20_21(21, 0, 0, 0, id13(1, 2, 3, 4), &mb, addr)));
                    batch.push(("bds21:runs", df20_21(20, 0, 0, 0, ac13_q(35000), &mb, addr)));
                }
            }
        }
    }
    // BDS 6,2: all selected altitudes, all QNH, all headings; BDS 6,1: all identity codes x subtype x emergency
    for alt in 0..2048u16 {
        batch.push(("bds62", df17(5, addr, &me_bds62(1, (alt & 1) as u8, alt, 300, 1, 100, 9, 1, 3, 0xff), 0)));
    }
    for q in 0..512u16 {
        for st in 0..4u8 {
            batch.push(("bds62", df17(5, addr, &me_bds62(st, 0, 1000, q, (q & 1) as u8, q, (q & 15) as u8, 0, (q & 3) as u8, q as u8), 0)));
        }
    }
    for id in 0..8192u16 {
        for st in [0u8, 1, 2, 7] {
            batch.push(("bds61", df17(5, addr, &me_bds61(st, (id & 7) as u8, id), 0)));
        }
    }
    // BDS 6,5: subtype x version x every 8-bit window of capability / mode / tail fields
    for st in 0..8u8 {
        for ver in 0..8u8 {
            for off in (8..=48).step_by(8) {
                for val in 0..256u64 {
                    for bg in [0x00u8, 0xff] {
                        let mut me = [bg; 7];
                        set_bits(&mut me, 0, 5, 31);
                        set_bits(&mut me, 5, 3, st as u64);
                        set_bits(&mut me, 40, 3, ver as u64);
                        if off != 40 {
                            set_bits(&mut me, off, 8, val);
                        } else {
                            set_bits(&mut me, 43, 5, val & 31);
                        }
                        batch.push(("bds65", df17(5, addr, &me, 0)));
                    }
                }
            }
        }
    }
    par_ranges(ctx.threads, batch.len() as u64, 256, |lo, hi| {
        for (i, (g, f)) in batch[lo as usize..hi as usize].iter().enumerate() {
            if (lo as usize + i) % p.stride != 0 {
                continue;
            }
            visit_frame(v, &c, g, f);
        }
    });
    rep.part("joint and complete field sweeps", c.frames.load(Ordering::Relaxed), serde_json::json!({"accepted": c.accepted.load(Ordering::Relaxed)}));
    c
}

/// BDS 3,0 with an active RA and threat type `tti`; TID = altitude(13) range(7) bearing(6) when tti = 2
pub fn mb_bds30(tti: u8, tid: u32) -> [u8; 7] {
    let mut mb = [0u8; 7];
    mb[0] = 0x30;
    set_bits(&mut mb, 8, 14, 0x2040); // ARA: RA issued, corrective
    set_bits(&mut mb, 28, 2, tti as u64);
    set_bits(&mut mb, 30, 26, tid as u64);
    mb
}

/// Backgrounds that select the other layout variants of a register (readers chosen by id bits)
fn variant_backgrounds(name: &str) -> Vec<[u8; 7]> {
    match name {
        "bds30" => vec![
            mb_bds30(1, 0x4840d6 << 2),
            mb_bds30(2, ((ac13_q(35000) as u32) << 13) | (20 << 6) | 7),
            mb_bds30(2, (1 << 26) - 1),
            mb_bds30(3, 0x2aaaaaa),
        ],
        _ => vec![],
    }
}

/// MB with every status bit set and reserved bits zero (so every reader is reached)
fn status_background(name: &str) -> [u8; 7] {
    match name {
        "bds40" => mb_bds40(Some(0), Some(0), Some(0), Some(0), Some(0)),
        "bds50" => mb_bds50(Some(0), Some(0), Some(0), Some(0), Some(0)),
        "bds60" => mb_bds60(Some(0), Some(0), Some(0), Some(0), Some(0)),
        "bds44" => mb44(0x200, 0, 0, 0x800, 0x40),
        "bds45" => [0xaa, 0xaa, 0xaa, 0xaa, 0xaa, 0xa0, 0x00],
        "bds05" => me_bds05(9, 0, 0, 0, 0, 0, 0, 0),
        "bds65" => me_bds65(1, 0, 0, 2, 0, 0, 0),
        "bds20" => mb_bds20(&[1; 8]),
        "bds10" => [0x10, 0, 0, 0, 0, 0, 0],
        "bds30" => [0x30, 0, 0, 0, 0, 0, 0],
        "bds21" => [0x80, 0, 0, 0x10, 0, 0, 0],
        _ => [0u8; 7],
    }
}

/// BDS 4,4: FOM(4) wind (st+9 speed, 9 direction) temperature (sign+10) pressure (st+11) turbulence (st+2) humidity (st+6)
pub fn mb44(wind: u32, dir: u32, temp: u32, press: u32, hum: u32) -> [u8; 7] {
    let mut mb = [0u8; 7];
    set_bits(&mut mb, 0, 4, 1);
    set_bits(&mut mb, 4, 10, wind as u64);
    set_bits(&mut mb, 14, 9, dir as u64);
    set_bits(&mut mb, 23, 11, temp as u64);
    set_bits(&mut mb, 34, 12, press as u64);
    set_bits(&mut mb, 49, 7, hum as u64);
    mb
}

/// BDS 4,5: 16 bits of hazard fields (turbulence, wind shear, microburst, icing, wake: st+2 each = 15 bits ...) then temperature etc.
pub fn mb45(x: u32) -> [u8; 7] {
    let mut mb = [0u8; 7];
    // low byte drives the first hazard fields, high byte the temperature field region
    set_bits(&mut mb, 0, 8, (x & 0xff) as u64);
    set_bits(&mut mb, 15, 11, ((x >> 8) | 0x400) as u64);
    mb
}

fn joint<F: Fn(u32, u32) -> [u8; 7] + Sync>(ctx: &Ctx, na: u32, nb: u32, step: u32, build: F, name: &str, v: &dyn Visitor, c: &Counts) {
    let step = step.max(1);
    // every pair of boundary codes of the two fields
    {
        let ext = |n: u32| -> Vec<u32> {
            let mut v = vec![0, 1, 2, n / 2 - n.min(2) / 2, n / 2, (n / 2 + 1).min(n - 1), n.saturating_sub(2), n - 1];
            v.retain(|x| *x < n);
            v.sort();
            v.dedup();
            v
        };
        for a in ext(na) {
            for b in ext(nb) {
                visit_reg(v, c, name, &build(a, b));
            }
        }
    }
    // the same domain inside whole DF20 / DF21 replies under every flight status (the header is context for the
    // register readers: alert / SPI / on-ground), on a grid eight times coarser
    let fstep = (step * 8).max(if ctx.thorough() && ctx.plain() { 8 } else { 64 });
    let group = format!("commb:joint:{name}");
    par_ranges(ctx.threads, (na / fstep).max(1) as u64, 1, |lo, hi| {
        for a in lo..hi {
            let a = a as u32 * fstep;
            let mut bs: Vec<u32> = (0..nb).step_by(fstep as usize).collect();
            bs.extend([nb - 1, nb / 2, (nb / 2).saturating_sub(1), 1.min(nb - 1)]);
            bs.retain(|b| *b < nb);
            bs.sort();
            bs.dedup();
            for b in bs {
                for (k, (x, y)) in [(a, b), (b.min(na - 1), a.min(nb - 1))].into_iter().enumerate() {
                    if k == 1 && nb == 1 {
                        continue;
                    }
                    let mb = build(x, y);
                    for fs in 0..8u8 {
                        visit_frame(v, c, &group, &df20_21(20, fs, 0, 0, if fs & 1 == 1 && fs < 4 { ac13_q(0) } else { ac13_q(35000) }, &mb, 0x4840d6));
                        visit_frame(v, c, &group, &df20_21(21, fs, 0, 0, id13(1, 2, 3, 4), &mb, 0x4840d6));
                    }
                }
            }
        }
    });
    par_ranges(ctx.threads, (na / step) as u64, 8, |lo, hi| {
        for a in lo..hi {
            let a = a as u32 * step;
            let mut b = 0;
            while b < nb {
                visit_reg(v, c, name, &build(a, b));
                b += step;
            }
            if step > 1 {
                // both extremes and the sign boundary are always included
                for b in [nb - 1, nb / 2, nb / 2 - 1, 1] {
                    visit_reg(v, c, name, &build(a, b));
                    visit_reg(v, c, name, &build(b.min(na - 1), a.min(nb - 1)));
                }
            }
        }
    });
}

/// Base frames of the two-decode sequences (C01, C07): one reply per register hypothesis in DF20 and DF21, the
/// extended-squitter kinds on DF17 and DF18, and the short formats
pub fn sequence_bases() -> Vec<Vec<u8>> {
    let mut bases: Vec<Vec<u8>> = Vec::new();
    for name in REGISTERS {
        bases.push(df20_21(20, 0, 0, 0, ac13_q(35000), &exemplar(name), 0x4840d6));
        bases.push(df20_21(21, 0, 0, 0, id13(1, 2, 3, 4), &exemplar(name), 0x4840d6));
    }
    bases.push(df20_21(20, 0, 0, 0, 0x0b5a, &exemplar("bds05"), 0x4840d6));
    for me in [me_bds08(4, 0, &cs_codes("KLM1023")), me_bds05(11, 0, 0, ac12_q(35000), 0, 0, 93000, 51372), me_bds05(20, 0, 0, 0x081, 0, 1, 93000, 51372), me_bds06(7, 20, 1, 64, 0, 1, 1000, 2000), me_bds09_gs(1, 0, 0, 0, 0, 100, 1, 200, 0, 0, 10, 0, 5), me_bds09_as(3, 0, 0, 0, 1, 512, 1, 300, 0, 1, 10, 0, 5), me_bds61(1, 0, id13(7, 7, 0, 0)), me_bds62(1, 0, 1000, 300, 1, 100, 9, 1, 3, 0), me_bds65(0, 0, 0, 2, 0, 9, 0), me_bds65(1, 0, 0, 1, 0, 9, 0)] {
        bases.push(df17(5, 0x4840d6, &me, 0));
        bases.push(df18(2, 0x4840d6, &me, 0));
    }
    bases.push(df11(5, 0x4840d6, 0));
    bases.push(df0(0, 0, 3, 3, ac13_q(12000), 0x4840d6));
    bases.push(df4_5(4, 0, 0, 0, ac13_q(35000), 0x4840d6));
    bases.push(df4_5(4, 0, 0, 0, 0x0b5a, 0x4840d6));
    bases.push(df4_5(5, 0, 0, 0, id13(1, 2, 3, 4), 0x4840d6));
    bases.push(df16(0, 3, 3, ac13_q(12000), &[0x30, 0, 0, 0, 0, 0, 0], 0x4840d6));
    bases
}

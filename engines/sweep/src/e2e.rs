//! E3 catalogue: scenarios for the end-to-end runs of the real `jet1090` and `decode1090` processes
//! (tools/e2e1090.py). Nothing of the subject is called here: frames are built by R-FRAME / R-CPR and every
//! expectation (shown df, shown address, true position) is computed from the bits that were put into the frame.
//!
//! The integration sites that the in-process engines cannot call (the body of jet1090's `main()`: per-sensor
//! reference lookup, the aircraft map, the order decode -> table -> filter -> serialise -> history; decode1090's
//! reader loop; the REST functions of web.rs) are anchors of C06, C07, C10, C11 and C12. A catalogue scenario is a
//! short history of receptions (frame, sensor, pause before it) together with the options of the process.

use crate::c06::encode;
use crate::common::*;
use crate::frames::*;
use serde_json::{json, Value};

fn shown_addr(frame: &[u8]) -> u32 {
    let df = frame[0] >> 3;
    match df {
        11 | 17 | 18 => ((frame[1] as u32) << 16) | ((frame[2] as u32) << 8) | frame[3] as u32,
        _ => ref_remainder(frame),
    }
}

fn ev(sensor: usize, dt: f64, frame: &[u8], kind: &str, ac: &str, pos: Option<(f64, f64)>, extra: Value) -> Value {
    let df = frame[0] >> 3;
    json!({
        "sensor": sensor, "dt": dt, "hex": hexs(frame), "kind": kind, "ac": ac,
        "df": df, "icao24": format!("{:06x}", shown_addr(frame)), "decodable": true,
        "pos": pos.map(|(a, b)| json!([a, b])), "extra": extra,
    })
}

struct Ac {
    name: &'static str,
    addr: u32,
    lat: f64,
    lon: f64,
    surface: bool,
    tisb: bool,
    callsign: &'static str,
    alt: i32,
}

/// k-th position report of an aircraft standing still (frames differ in the altitude / movement code so that
/// every frame of a scenario is unique and can be recognised in the output by its hex form)
fn pos_frame(a: &Ac, k: usize, odd: bool) -> Vec<u8> {
    let (yz, xz, _) = encode(a.lat, a.lon, odd, a.surface);
    let me = if a.surface {
        // movement codes 2.. (speed > 0 so that the frame is not the "no information" one), track valid
        me_bds06(7, 2 + (k as u8 % 100), 1, (k as u8 * 3) % 128, 0, odd as u8, yz, xz)
    } else {
        me_bds05(11, 0, 0, ac12_q(a.alt + 25 * k as i32), 0, odd as u8, yz, xz)
    };
    if a.tisb {
        df18(2, a.addr, &me, 0)
    } else {
        df17(5, a.addr, &me, 0)
    }
}

fn ident_frame(a: &Ac) -> Vec<u8> {
    let me = me_bds08(4, 3, &cs_codes(a.callsign));
    if a.tisb {
        df18(2, a.addr, &me, 0)
    } else {
        df17(5, a.addr, &me, 0)
    }
}

fn sentinel(k: usize) -> Vec<u8> {
    // DF17 airborne velocity from a reserved address; unique per k: ground speed k + 1 kt due east
    let me = me_bds09_gs(1, 0, 0, 0, 0, 2 + (k as u16 % 1000), 0, 1, 0, 0, 1, 0, 1);
    df17(5, 0x00beef, &me, 0)
}

pub fn catalogue(thorough: bool) -> Value {
    // two receivers far apart
    let sensors = json!([{"lat": 43.6, "lon": 1.45}, {"lat": -33.9, "lon": 18.6}]);
    let a = Ac { name: "A", addr: 0x4b1a01, lat: 44.1, lon: 2.0, surface: false, tisb: false, callsign: "AAA001", alt: 10000 };
    let b = Ac { name: "B", addr: 0x4b1a02, lat: 43.63, lon: 1.37, surface: true, tisb: false, callsign: "BBB002", alt: 0 };
    let c = Ac { name: "C", addr: 0x06a153, lat: -33.97, lon: 18.60, surface: true, tisb: false, callsign: "CCC003", alt: 0 };
    let d = Ac { name: "D", addr: 0x000001, lat: 43.9, lon: 1.0, surface: false, tisb: true, callsign: "DDD004", alt: 3000 };
    let e = Ac { name: "E", addr: 0xfffffe, lat: -34.2, lon: 18.9, surface: false, tisb: false, callsign: "EEE005", alt: 4000 };
    // F: same CPR neighbourhood as A but 0.7 degree away - pairing A's report with F's gives a wrong position
    let f = Ac { name: "F", addr: 0x4b1a03, lat: 44.8, lon: 2.9, surface: false, tisb: false, callsign: "FFF006", alt: 12000 };
    // G: a second TIS-B target, so that the TIS-B arm of the decoder loop also sees two aircraft at once
    let g = Ac { name: "G", addr: 0x4b1a04, lat: 44.5, lon: 1.2, surface: false, tisb: true, callsign: "GGG007", alt: 5000 };
    let sensor_of = |x: &Ac| if x.lat < 0.0 { 1 } else { 0 };

    let mut scenarios: Vec<Value> = vec![];
    let flight = |x: &Ac, n: usize| -> Vec<Value> {
        let mut v = vec![ev(sensor_of(x), 0.0, &ident_frame(x), "ident", x.name, None, json!({"callsign": x.callsign}))];
        for k in 0..n {
            let odd = k % 2 == 1;
            v.push(ev(sensor_of(x), 0.0, &pos_frame(x, k, odd), if x.surface { "surface" } else { "airborne" }, x.name, Some((x.lat, x.lon)),
                      json!({"odd": odd, "altitude": if x.surface { Value::Null } else { json!(x.alt + 25 * k as i32) }})));
        }
        v
    };
    let interleave = |parts: Vec<Vec<Value>>| -> Vec<Value> {
        let mut out = vec![];
        let n = parts.iter().map(|p| p.len()).max().unwrap_or(0);
        for i in 0..n {
            for p in &parts {
                if let Some(x) = p.get(i) {
                    out.push(x.clone());
                }
            }
        }
        out
    };
    let plain = json!({"dedup_ms": 0, "df_filter": null, "aircraft_filter": null, "via": "cli", "rest": true});

    // --- C06 / C12: each aircraft alone, then interleaved (solo runs are the reference for non-interference)
    let fleet: Vec<&Ac> = vec![&a, &b, &c, &d, &e, &f, &g];
    for x in &fleet {
        scenarios.push(json!({"name": format!("solo:{}", x.name), "group": "positions", "sensors": sensors, "options": plain, "events": flight(x, 6)}));
    }
    let combos: Vec<Vec<&Ac>> = if thorough {
        let mut v: Vec<Vec<&Ac>> = vec![fleet.clone()];
        for i in 0..fleet.len() {
            for j in 0..fleet.len() {
                if i != j {
                    v.push(vec![fleet[i], fleet[j]]);
                }
            }
        }
        v
    } else {
        vec![fleet.clone(), vec![&a, &f], vec![&f, &a], vec![&a, &d], vec![&b, &c], vec![&c, &b], vec![&d, &f], vec![&e, &c], vec![&d, &g], vec![&g, &d], vec![&g, &a]]
    };
    for cmb in combos {
        let name = cmb.iter().map(|x| x.name).collect::<Vec<_>>().join("+");
        scenarios.push(json!({"name": format!("mix:{name}"), "group": "positions", "sensors": sensors, "options": plain,
                              "events": interleave(cmb.iter().map(|x| flight(x, 6)).collect())}));
    }

    // a frame heard by BOTH receivers (one record with two receptions once deduplicated), then surface reports heard by
    // the second receiver only: each reception must still be decoded against its own receiver's reference
    {
        let mut events = vec![];
        for x in flight(&a, 4) {
            let mut y = x.clone();
            y["sensor"] = json!(1);
            events.push(x);
            events.push(y);
        }
        let mut pause = flight(&c, 6);
        pause[0]["dt"] = json!(0.5);
        events.extend(pause);
        let mut later = flight(&b, 6);
        later[0]["dt"] = json!(0.1);
        events.extend(later);
        scenarios.push(json!({"name": "shared:A(both)+C+B", "group": "positions", "sensors": sensors,
            "options": {"dedup_ms": 300, "df_filter": null, "aircraft_filter": null, "via": "cli", "rest": true}, "events": events}));
    }

    // a receiver that stamps its frames with its own (GNSS) clock, and that clock disagrees with the arrival times: the
    // two reports below arrive 19 s apart (too far to pair) while the receiver's stamps
    // put them 0.5 s apart. The stamps are receiver data; what is decoded must follow the record's own time.
    {
        // due north at 700 kt: in the 19 s between the two reports the aircraft flies 3.7 NM, more than the even / odd
        // zone arithmetic tolerates (about 3 NM), so pairing them puts the aircraft one latitude zone (about 670 km) away
        let at = |t: f64| (47.99 + 700.0 / 3600.0 * t / 60.0, 2.0);
        let mk = |k: usize, dt: f64, t_true: f64, gnss: f64, odd: bool| {
            let (la, lo) = at(t_true);
            let (yz, xz, _) = encode(la, lo, odd, false);
            let me = me_bds05(11, 0, 0, ac12_q(30000 + 25 * k as i32), 0, odd as u8, yz, xz);
            let mut e = ev(0, dt, &df17(5, 0x4b1a21, &me, 0), "airborne", "Q", Some((la, lo)), json!({"odd": odd}));
            e["gnss"] = json!(gnss);
            e
        };
        let events = vec![mk(0, 0.0, 0.0, 0.0, false), mk(1, 19.0, 19.0, 0.5, true), mk(2, 0.4, 19.4, 0.9, false), mk(3, 0.4, 19.8, 1.3, true)];
        scenarios.push(json!({"name": "gnss-clock:Q", "group": "positions-slow", "sensors": sensors, "options": plain, "events": events}));
    }

    // moving aircraft with explicit time stamps (decode1090 only: its input carries the stamps): a wrong pairing of two
    // reports of a standing aircraft gives the right answer, of a moving one it does not
    {
        let fly = |name: &'static str, addr: u32, lat0: f64, lon0: f64, kt: f64, plan: &[(f64, bool)]| -> Vec<Value> {
            plan.iter().enumerate().map(|(k, (t, odd))| {
                let lon = lon0 + kt / 3600.0 * t / 60.0 / lat0.to_radians().cos();
                let (yz, xz, _) = encode(lat0, lon, *odd, false);
                let me = me_bds05(11, 0, 0, ac12_q(20000 + 25 * k as i32), 0, *odd as u8, yz, xz);
                let mut e = ev(0, 0.0, &df17(5, addr, &me, 0), "airborne", name, Some((lat0, lon)), json!({"odd": odd}));
                e["t"] = json!(t);
                e
            }).collect()
        };
        let plans: Vec<(&str, Vec<(f64, bool)>)> = vec![
            ("steady", vec![(0.0, false), (0.5, true), (1.0, false), (1.5, true), (2.0, false), (2.5, true)]),
            ("late-line", vec![(0.0, false), (0.5, true), (1.0, false), (31.0, true), (2.0, false), (32.0, false), (32.5, true)]),
            ("late-first", vec![(1031.0, false), (1002.0, true), (1032.0, true), (1033.0, false)]),
            ("gap25", vec![(0.0, false), (25.0, true), (25.5, false), (26.0, true)]),
            ("gap11-no-fix", vec![(0.0, false), (11.0, true), (22.0, false), (33.0, true), (33.4, false)]),
            ("stale", vec![(0.0, false), (0.4, true), (200.0, true), (400.0, true), (400.4, false)]),
            ("same-parity", vec![(0.0, false), (0.5, false), (1.0, false), (9.0, true)]),
        ];
        for (pname, plan) in &plans {
            let m = fly("M", 0x4b1a11, 44.0, 2.0, 600.0, plan);
            let n = fly("N", 0x4b1a12, 43.2, 0.9, 450.0, plan);
            scenarios.push(json!({"name": format!("solo:M:{pname}"), "group": "moving", "sensors": sensors, "options": plain, "events": m}));
            scenarios.push(json!({"name": format!("solo:N:{pname}"), "group": "moving", "sensors": sensors, "options": plain, "events": n}));
            scenarios.push(json!({"name": format!("mix:M+N:{pname}"), "group": "moving", "sensors": sensors, "options": plain, "events": interleave(vec![m, n])}));
        }
    }

    // --- C07 / C11 / C12: one record of every address-carrying format and of the main message kinds
    let mut kinds: Vec<Value> = vec![];
    let addrs = [0x4b1a01u32, 0x000001, 0xfffffe, 0x06a153];
    for (i, &ad) in addrs.iter().enumerate() {
        let i8_ = i as u8;
        kinds.push(ev(0, 0.0, &df0(0, 0, 0, 0, ac13_q(5000 + 100 * i as i32), ad), "df0", "K", None, json!({})));
        kinds.push(ev(0, 0.0, &df4_5(4, 0, 0, 0, ac13_q(7000 + 100 * i as i32), ad), "df4", "K", None, json!({"altitude": 7000 + 100 * i as i32})));
        kinds.push(ev(0, 0.0, &df4_5(5, 0, 0, 0, id13(1 + i8_, 2, 3, 4), ad), "df5", "K", None, json!({"squawk": format!("{}234", 1 + i)})));
        kinds.push(ev(0, 0.0, &df11(5, ad, 0), "df11", "K", None, json!({})));
        kinds.push(ev(0, 0.0, &df16(0, 0, 0, ac13_q(9000 + 100 * i as i32), &[0u8; 7], ad), "df16", "K", None, json!({})));
        kinds.push(ev(0, 0.0, &df17(5, ad, &me_bds08(4, 1, &cs_codes(&format!("KIND{i:03}"))), 0), "df17:ident", "K", None, json!({"callsign": format!("KIND{i:03}")})));
        kinds.push(ev(0, 0.0, &df17(5, ad, &me_bds09_gs(1, 0, 0, 0, 0, 101 + i as u16, 1, 201, 0, 0, 11, 0, 5), 0), "df17:velocity", "K", None, json!({})));
        kinds.push(ev(0, 0.0, &df17(5, ad, &me_bds61(1, 0, id13(7, 5, 0, i8_)), 0), "df17:status", "K", None, json!({})));
        kinds.push(ev(0, 0.0, &df17(5, ad, &me_bds62(1, 0, 1000 + i as u16, 300, 1, 100, 9, 1, 2, 0), 0), "df17:target", "K", None, json!({})));
        kinds.push(ev(0, 0.0, &df17(5, ad, &me_bds65(0, 0, 0, 2, 0, 9, 0), 0), "df17:opstatus", "K", None, json!({})));
        for cf in [0u8, 1, 2, 5, 6] {
            // CF 0/1/2/5/6 carry an ADS-B / TIS-B message with a 24-bit address
            kinds.push(ev(0, 0.0, &df18(cf, ad ^ ((cf as u32) << 8), &me_bds08(4, 1, &cs_codes(&format!("TISB{cf}{i:02}"))), 0), "df18:ident", "K", None, json!({"cf": cf, "callsign": format!("TISB{cf}{i:02}")})));
        }
        kinds.push(ev(0, 0.0, &df20_21(20, 0, 0, 0, ac13_q(11000 + 100 * i as i32), &mb_bds20(&cs_codes(&format!("CMB{i:03}"))), ad), "df20:bds20", "K", None, json!({"callsign": format!("CMB{i:03}")})));
        kinds.push(ev(0, 0.0, &df20_21(21, 0, 0, 0, id13(2, 1 + i8_, 0, 0), &[0u8; 7], ad), "df21:empty", "K", None, json!({})));
        // a Comm-B payload that reads both as BDS 5,0 (322 kt on track 250.5) and as BDS 6,0 - the one of the repository's
        // own test - right after an ADS-B velocity that agrees with the 5,0 reading
        kinds.push(ev(0, 0.0, &df17(5, ad, &me_bds09_gs(1, 0, 0, 0, 1, 305, 1, 109, 0, 0, 11, 0, 5), 0), "df17:velocity", "K", None, json!({})));
        kinds.push(ev(0, 0.0, &df20_21(21, 0, 0, 0, id13(3, 1 + i8_, 1, 1), &[0xff, 0xfb, 0x23, 0x28, 0x60, 0x04, 0xa7], ad), "df21:bds50+60", "K", None, json!({})));
        kinds.push(ev(0, 0.0, &df20_21(20, 0, 0, 0, ac13_q(30000), &mb_bds40(Some(1875 + i as u32), Some(1875 + i as u32), Some(2663), None, None), ad), "df20:bds40", "K", None, json!({})));
    }
    // receptions that do not decode: a squitter with a damaged parity field, a truncated squitter
    let mut bad = df17(5, 0x4b1a01, &me_bds08(4, 1, &cs_codes("BADCRC")), 0);
    bad[13] ^= 0x40;
    let mut e1 = ev(0, 0.0, &bad, "undecodable:parity", "K", None, json!({}));
    e1["decodable"] = json!(false);
    kinds.push(e1);

    let filter_sets: Vec<(Value, Value)> = vec![
        (Value::Null, Value::Null),
        (json!([17]), Value::Null),
        (json!([4, 20]), Value::Null),
        (Value::Null, json!(["4b1a01"])),
        (json!([18, 11]), json!(["fffffe", "000001"])),
        (json!([]), json!([])),
        (json!([5]), json!(["06a153", "4b1a01", "000001"])),
        (json!([24]), Value::Null),
        (Value::Null, json!(["4b1a03"])),
        (json!([4, 5, 11, 17, 20, 21]), Value::Null),
        (json!([21, 4, 17, 0, 16]), json!(["fffffe", "000001", "4b1a01", "06a153"])),
        (json!([22]), Value::Null),
        (json!([25, 1, 2, 3]), Value::Null),
    ];
    for (k, (dff, acf)) in filter_sets.iter().enumerate() {
        for via in ["cli", "config"] {
            if !thorough && via == "config" && k % 2 == 1 {
                continue;
            }
            scenarios.push(json!({"name": format!("kinds:{k}:{via}"), "group": "kinds", "sensors": sensors,
                "options": {"dedup_ms": 0, "df_filter": dff, "aircraft_filter": acf, "via": via, "rest": true}, "events": kinds}));
        }
    }

    // the same receptions in the opposite order: a record must not depend on what was received before it
    {
        let mut rev = kinds.clone();
        rev.reverse();
        scenarios.push(json!({"name": "kinds:reversed", "group": "kinds", "sensors": sensors,
            "options": {"dedup_ms": 0, "df_filter": null, "aircraft_filter": null, "via": "cli", "rest": true}, "events": rev}));
    }

    // the expiry task (thorough only: it wakes up every 60 s): an aircraft heard once a second through formats that
    // leave no history (DF4 / DF11) for 70 s, with --history-expire 1; it is alive, so its entry must survive the pass
    if thorough {
        let mut events = vec![];
        for k in 0..70 {
            // (one all-call reply, then surveillance replies with a new altitude each second: every frame is distinct)
            let fr = if k == 1 { df11(5, 0x4b1a31, 0) } else { df4_5(4, 0, 0, 0, ac13_q(8000 + 25 * k as i32), 0x4b1a31) };
            events.push(ev(0, if k == 0 { 0.0 } else { 1.0 }, &fr, if k == 1 { "df11" } else { "df4" }, "X", None, json!({})));
        }
        scenarios.push(json!({"name": "expire:1min", "group": "expire", "sensors": sensors,
            "options": {"dedup_ms": 0, "df_filter": null, "aircraft_filter": null, "via": "cli", "rest": true, "history_expire": 1}, "events": events}));
    }

    // --- C10: the same frame heard by both receivers, windows honoured
    for (w, gap, merged) in [(450, 0.05, true), (450, 0.8, false), (1500, 0.8, true), (0, 0.05, false), (200, 0.5, false)] {
        let x1 = df17(5, 0x4b1a01, &me_bds08(4, 1, &cs_codes("DUP00001")), 0);
        let x2 = df17(5, 0x4b1a02, &me_bds08(4, 1, &cs_codes("DUP00002")), 0);
        let y = df17(5, 0x4b1a03, &me_bds08(4, 1, &cs_codes("ONLYONCE")), 0);
        let mk = |s: usize, dt: f64, fr: &[u8], tag: &str| ev(s, dt, fr, "dup", tag, None, json!({}));
        let events = vec![mk(0, 0.0, &x1, "x1"), mk(0, 0.0, &y, "y"), mk(1, gap, &x1, "x1"), mk(1, 0.0, &x2, "x2"), mk(0, 0.01, &x2, "x2")];
        scenarios.push(json!({"name": format!("dedup:w{w}:gap{}", (gap * 1000.0) as u32), "group": "dedup", "sensors": sensors,
            "options": {"dedup_ms": w, "df_filter": null, "aircraft_filter": null, "via": "cli", "rest": false},
            "expect_merged": merged, "window_s": w as f64 / 1000.0, "events": events}));
    }
    // one receiver only: the same frame twice inside / outside the window
    for (w, gap, merged) in [(450, 0.06, true), (450, 0.9, false), (1000, 0.06, true)] {
        let x1 = df17(5, 0x4b1a01, &me_bds08(4, 1, &cs_codes("DUP00001")), 0);
        let y = df17(5, 0x4b1a03, &me_bds08(4, 1, &cs_codes("ONLYONCE")), 0);
        let mk = |dt: f64, fr: &[u8], tag: &str| ev(0, dt, fr, "dup", tag, None, json!({}));
        let events = vec![mk(0.0, &x1, "x1"), mk(0.0, &y, "y"), mk(gap, &x1, "x1")];
        scenarios.push(json!({"name": format!("dedup1:w{w}:gap{}", (gap * 1000.0) as u32), "group": "dedup", "sensors": [sensors[0]],
            "options": {"dedup_ms": w, "df_filter": null, "aircraft_filter": null, "via": "cli", "rest": false},
            "expect_merged": merged, "window_s": w as f64 / 1000.0, "events": events}));
    }
    let sentinels: Vec<Value> = (0..1000).map(|k| json!(hexs(&sentinel(k)))).collect();
    json!({"sensors": sensors, "sentinel_icao24": "00beef", "sentinels": sentinels, "scenarios": scenarios})
}

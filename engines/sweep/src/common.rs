// Shared plumbing of the sweep engine: report accumulation, sharding over
// threads, panic capture, small deterministic PRNG (only for *extra*
// backgrounds, never for a verdict).

use serde_json::{json, Value};
use std::collections::BTreeMap;
use std::panic::{catch_unwind, AssertUnwindSafe};
use std::sync::atomic::{AtomicBool, AtomicU64, Ordering};
use std::sync::Mutex;
use std::time::Instant;

#[derive(Clone, Copy, PartialEq, Eq, Debug)]
pub enum Tier {
    Quick,
    Thorough,
}

pub struct Ctx {
    pub tier: Tier,
    pub seed: u64,
    pub threads: usize,
    /// process-level dimension of this run ("" = the plain process; "logging" = a TRACE subscriber for
    /// `tracing` and `log` is installed; "stats" = `serialize_config(true)` was called): state that can only
    /// be set once per process, so each value is its own engine run over a reduced plan (bin/check merges them)
    pub dim: String,
}

impl Ctx {
    pub fn thorough(&self) -> bool {
        self.tier == Tier::Thorough
    }
    pub fn plain(&self) -> bool {
        self.dim.is_empty()
    }
}

struct CountWriter(usize);
impl std::fmt::Write for CountWriter {
    fn write_str(&mut self, s: &str) -> std::fmt::Result {
        self.0 += s.len();
        Ok(())
    }
}
struct EvalVisit;
impl tracing::field::Visit for EvalVisit {
    fn record_debug(&mut self, _field: &tracing::field::Field, value: &dyn std::fmt::Debug) {
        use std::fmt::Write;
        let mut w = CountWriter(0);
        let _ = write!(w, "{value:?}");
        std::hint::black_box(w.0);
    }
}
struct EvalLayer;
impl<S: tracing::Subscriber> tracing_subscriber::Layer<S> for EvalLayer {
    fn on_new_span(&self, attrs: &tracing::span::Attributes<'_>, _id: &tracing::span::Id, _ctx: tracing_subscriber::layer::Context<'_, S>) {
        attrs.record(&mut EvalVisit);
    }
    fn on_record(&self, _id: &tracing::span::Id, values: &tracing::span::Record<'_>, _ctx: tracing_subscriber::layer::Context<'_, S>) {
        values.record(&mut EvalVisit);
    }
    fn on_event(&self, event: &tracing::Event<'_>, _ctx: tracing_subscriber::layer::Context<'_, S>) {
        event.record(&mut EvalVisit);
    }
}

/// Apply the process-level dimension named by VERIF_DIM; returns its name.
pub fn apply_dim() -> String {
    let dim = std::env::var("VERIF_DIM").unwrap_or_default();
    match dim.as_str() {
        "" => {}
        "logging" => {
            // every span and event of every level is enabled; their field expressions are evaluated at the call
            // site and every value is rendered (into a byte counter: no line is built, nothing is written).
            // `init` also routes the `log` crate (deku's "logging" feature) into the same subscriber.
            use tracing_subscriber::layer::SubscriberExt;
            use tracing_subscriber::util::SubscriberInitExt;
            tracing_subscriber::registry().with(EvalLayer).init();
        }
        "stats" => rs1090::decode::serialize_config(true),
        "debugassert" => {
            // a build dimension rather than a run-time one: this binary must have been compiled with debug assertions
            if !cfg!(debug_assertions) {
                eprintln!("VERIF_DIM=debugassert needs an engine built with debug assertions on");
                std::process::exit(2);
            }
        }
        other => {
            eprintln!("unknown VERIF_DIM {other}");
            std::process::exit(2);
        }
    }
    dim
}

pub struct Viol {
    pub what: String,
    pub witness: Value,
    pub count: u64,
}

/// Accumulates what one run covered. All counters are measured.
pub struct Report {
    pub id: String,
    pub start: Instant,
    pub evaluations: AtomicU64,
    pub nontrivial: AtomicU64,
    pub states: AtomicU64,
    pub transitions: AtomicU64,
    pub exhaustive: AtomicBool,
    viols: Mutex<BTreeMap<String, Viol>>,
    samples: Mutex<Vec<Value>>,
    notes: Mutex<BTreeMap<String, Value>>,
    warnings: Mutex<Vec<String>>,
    assumptions: Mutex<Vec<String>>,
    outcomes: Mutex<BTreeMap<String, u64>>,
    parts: Mutex<Vec<Value>>,
    pub rule: Mutex<String>,
    pub bound: Mutex<String>,
}

impl Report {
    pub fn new(id: &str) -> Self {
        Report {
            id: id.to_string(),
            start: Instant::now(),
            evaluations: AtomicU64::new(0),
            nontrivial: AtomicU64::new(0),
            states: AtomicU64::new(0),
            transitions: AtomicU64::new(0),
            exhaustive: AtomicBool::new(true),
            viols: Mutex::new(BTreeMap::new()),
            samples: Mutex::new(Vec::new()),
            notes: Mutex::new(BTreeMap::new()),
            warnings: Mutex::new(Vec::new()),
            assumptions: Mutex::new(Vec::new()),
            outcomes: Mutex::new(BTreeMap::new()),
            parts: Mutex::new(Vec::new()),
            rule: Mutex::new(String::new()),
            bound: Mutex::new(String::new()),
        }
    }
    pub fn eval(&self, n: u64) {
        self.evaluations.fetch_add(n, Ordering::Relaxed);
    }
    pub fn nontriv(&self, n: u64) {
        self.nontrivial.fetch_add(n, Ordering::Relaxed);
    }
    pub fn state(&self, n: u64) {
        self.states.fetch_add(n, Ordering::Relaxed);
    }
    pub fn trans(&self, n: u64) {
        self.transitions.fetch_add(n, Ordering::Relaxed);
    }
    pub fn not_exhaustive(&self, why: &str) {
        self.exhaustive.store(false, Ordering::Relaxed);
        self.warn(format!("not exhaustive: {why}"));
    }
    /// Record a violation under a class key built from code-level
    /// coordinates; the first witness (simplest-first order within a shard)
    /// is kept, later ones only counted. A lexicographically smaller witness
    /// key replaces the stored one so the choice is deterministic across
    /// thread schedules.
    pub fn violation(&self, class: &str, what: String, witness: Value) {
        if VIOL_TOTAL.fetch_add(1, Ordering::Relaxed) > VIOL_CAP {
            // enough counterexamples: stop enumerating (the run is a failure
            // anyway; panics cost microseconds each and a broken subject can
            // produce billions of them)
            STOP.store(true, Ordering::Relaxed);
        }
        let mut v = self.viols.lock().unwrap();
        let key = witness.to_string();
        match v.get_mut(class) {
            Some(e) => {
                e.count += 1;
                let old = e.witness.to_string();
                if (key.len(), &key) < (old.len(), &old) {
                    e.witness = witness;
                    e.what = what;
                }
            }
            None => {
                v.insert(class.to_string(), Viol { what, witness, count: 1 });
            }
        }
    }
    pub fn n_violation_classes(&self) -> usize {
        self.viols.lock().unwrap().len()
    }
    pub fn sample(&self, s: Value) {
        let mut v = self.samples.lock().unwrap();
        if v.len() < 12 {
            v.push(s);
        }
    }
    pub fn note(&self, k: &str, v: Value) {
        self.notes.lock().unwrap().insert(k.to_string(), v);
    }
    pub fn warn(&self, w: String) {
        let mut v = self.warnings.lock().unwrap();
        if v.len() < 50 && !v.contains(&w) {
            v.push(w);
        }
    }
    pub fn assume(&self, a: &str) {
        let mut v = self.assumptions.lock().unwrap();
        if !v.iter().any(|x| x == a) {
            v.push(a.to_string());
        }
    }
    pub fn outcome(&self, k: &str, n: u64) {
        *self.outcomes.lock().unwrap().entry(k.to_string()).or_insert(0) += n;
    }
    pub fn merge_outcomes(&self, m: &BTreeMap<String, u64>) {
        let mut o = self.outcomes.lock().unwrap();
        for (k, n) in m {
            *o.entry(k.clone()).or_insert(0) += n;
        }
    }
    /// One line per completed part of the enumeration (what, how many, time).
    pub fn part(&self, name: &str, cases: u64, detail: Value) {
        let t = self.start.elapsed().as_secs_f64();
        eprintln!("[{}] part {name}: cases={cases} t={t:.1}s {detail}", self.id);
        self.parts.lock().unwrap().push(json!({"part": name, "cases": cases, "t_s": (t*10.0).round()/10.0, "detail": detail}));
    }
    pub fn set_rule(&self, s: &str) {
        *self.rule.lock().unwrap() = s.to_string();
    }
    pub fn set_bound(&self, s: &str) {
        *self.bound.lock().unwrap() = s.to_string();
    }
    pub fn to_json(&self, tier: Tier, seed: u64) -> Value {
        let viols: Vec<Value> = self
            .viols
            .lock()
            .unwrap()
            .iter()
            .map(|(k, v)| json!({"class": k, "what": v.what, "witness": v.witness, "count": v.count}))
            .collect();
        let outcomes = self.outcomes.lock().unwrap().clone();
        json!({
            "property_id": self.id,
            "tier": if tier == Tier::Quick {"quick"} else {"thorough"},
            "seed": seed,
            "evaluations": self.evaluations.load(Ordering::Relaxed),
            "distinct_nontrivial": self.nontrivial.load(Ordering::Relaxed),
            "states": self.states.load(Ordering::Relaxed),
            "transitions": self.transitions.load(Ordering::Relaxed),
            "exhaustive": self.exhaustive.load(Ordering::Relaxed),
            "rule": *self.rule.lock().unwrap(),
            "bound": *self.bound.lock().unwrap(),
            "samples": *self.samples.lock().unwrap(),
            "notes": *self.notes.lock().unwrap(),
            "parts": *self.parts.lock().unwrap(),
            "warnings": *self.warnings.lock().unwrap(),
            "assumptions": *self.assumptions.lock().unwrap(),
            "distinct_outcomes": outcomes.len(),
            "outcomes": outcomes,
            "violations": viols,
            "stopped_early": stopped(),
            "wall_s": self.start.elapsed().as_secs_f64(),
        })
    }
}

static STOP: AtomicBool = AtomicBool::new(false);
static VIOL_TOTAL: AtomicU64 = AtomicU64::new(0);
const VIOL_CAP: u64 = 20_000;
/// True once so many violations were recorded that enumeration is cut short.
pub fn stopped() -> bool {
    STOP.load(Ordering::Relaxed)
}

/// Run `f(lo, hi)` over `0..n` split into dynamic chunks on `threads` workers.
pub fn par_ranges<F: Fn(u64, u64) + Sync>(threads: usize, n: u64, chunk: u64, f: F) {
    let next = AtomicU64::new(0);
    let chunk = chunk.max(1);
    std::thread::scope(|s| {
        for _ in 0..threads.max(1) {
            s.spawn(|| loop {
                let lo = next.fetch_add(chunk, Ordering::Relaxed);
                if lo >= n || stopped() {
                    break;
                }
                let hi = (lo + chunk).min(n);
                f(lo, hi);
            });
        }
    });
}

/// Run `f(item)` for each index of a list, dynamically distributed.
pub fn par_items<F: Fn(usize) + Sync>(threads: usize, n: usize, f: F) {
    par_ranges(threads, n as u64, 1, |lo, hi| {
        for i in lo..hi {
            f(i as usize)
        }
    });
}

thread_local! {
    static LAST_PANIC_LOC: std::cell::RefCell<String> = const { std::cell::RefCell::new(String::new()) };
}

/// Silence the default panic message; remember where the last panic of this
/// thread came from (source file and line).
pub fn silence_panics() {
    std::panic::set_hook(Box::new(|info| {
        let loc = info.location().map(|l| format!("{}:{}", l.file(), l.line())).unwrap_or_default();
        LAST_PANIC_LOC.with(|c| *c.borrow_mut() = loc);
    }));
}

/// "file.rs:line" of the last panic caught on this thread
pub fn last_panic_loc() -> String {
    LAST_PANIC_LOC.with(|c| c.borrow().clone())
}

/// Source file (base name, no line) of the last panic caught on this thread
pub fn last_panic_file() -> String {
    let l = last_panic_loc();
    let f = l.rsplit('/').next().unwrap_or("");
    f.split(':').next().unwrap_or("").to_string()
}

pub fn panic_text(e: Box<dyn std::any::Any + Send>) -> String {
    if let Some(s) = e.downcast_ref::<&str>() {
        s.to_string()
    } else if let Some(s) = e.downcast_ref::<String>() {
        s.clone()
    } else {
        "<non-string panic payload>".to_string()
    }
}

/// Call the subject; a panic becomes Err(message). The call is visible to the hang watchdog (coarse tick, ~2 ns).
pub fn guarded<T, F: FnOnce() -> T>(f: F) -> Result<T, String> {
    MY_SLOT.with(|s| s.since_tick.store(TICK.load(Ordering::Relaxed), Ordering::Relaxed));
    let r = catch_unwind(AssertUnwindSafe(f)).map_err(panic_text);
    MY_SLOT.with(|s| s.since_tick.store(0, Ordering::Relaxed));
    r
}

/// Describe the case the next guarded calls of this thread belong to (four words, meaning chosen by the module;
/// shown in the witness if a call does not return). Three relaxed stores.
pub fn set_case(tag: u64, a: u64, b: u64, c: u64) {
    MY_SLOT.with(|s| {
        s.case[0].store(tag, Ordering::Relaxed);
        s.case[1].store(a, Ordering::Relaxed);
        s.case[2].store(b, Ordering::Relaxed);
        s.case[3].store(c, Ordering::Relaxed);
    });
}

/// Frame bytes (up to 24) as the case description.
pub fn set_case_bytes(tag: u64, bytes: &[u8]) {
    let mut w = [0u64; 3];
    for (i, b) in bytes.iter().take(24).enumerate() {
        w[i / 8] |= (*b as u64) << (8 * (i % 8));
    }
    set_case(tag | ((bytes.len() as u64) << 32), w[0], w[1], w[2]);
}

// ---------------------------------------------------------------------------
// Hang watchdog: calls into the subject that may not terminate are bracketed by enter()/leave(); a watchdog thread
// reports an input that keeps a worker busy for longer than the limit as a violation and ends the process through
// the emergency exit installed by main (a stuck worker cannot be joined).

pub struct WatchSlot {
    /// milliseconds since process start when the current call began, 0 = idle
    pub since: AtomicU64,
    pub input: Mutex<Vec<u8>>,
    /// watchdog tick at which the current `guarded` call began, 0 = idle
    pub since_tick: AtomicU64,
    pub case: [AtomicU64; 4],
}

/// advanced by the watchdog thread every 500 ms (starts at 1 so that 0 can mean idle)
static TICK: AtomicU64 = AtomicU64::new(1);

static WATCH_SLOTS: Mutex<Vec<std::sync::Arc<WatchSlot>>> = Mutex::new(Vec::new());
static PROCESS_START: std::sync::OnceLock<Instant> = std::sync::OnceLock::new();
pub static EMERGENCY_EXIT: std::sync::OnceLock<Box<dyn Fn() + Send + Sync>> = std::sync::OnceLock::new();

thread_local! {
    static MY_SLOT: std::sync::Arc<WatchSlot> = {
        let s = std::sync::Arc::new(WatchSlot { since: AtomicU64::new(0), input: Mutex::new(Vec::new()), since_tick: AtomicU64::new(0), case: [AtomicU64::new(0), AtomicU64::new(0), AtomicU64::new(0), AtomicU64::new(0)] });
        WATCH_SLOTS.lock().unwrap().push(s.clone());
        s
    };
}

fn now_ms() -> u64 {
    PROCESS_START.get_or_init(Instant::now).elapsed().as_millis() as u64 + 1
}

/// Call the subject on `input` under the watchdog; a panic becomes Err(message).
pub fn guarded_watch<T, F: FnOnce() -> T>(input: &[u8], f: F) -> Result<T, String> {
    MY_SLOT.with(|s| {
        {
            let mut i = s.input.lock().unwrap();
            i.clear();
            i.extend_from_slice(input);
        }
        s.since.store(now_ms(), Ordering::Release);
    });
    let r = catch_unwind(AssertUnwindSafe(f)).map_err(panic_text);
    MY_SLOT.with(|s| s.since.store(0, Ordering::Release));
    r
}

/// Start the watchdog: an input that keeps a worker busy for more than `limit_s` seconds is recorded as a
/// violation of class `<class>` and the process is ended through EMERGENCY_EXIT.
pub fn start_watchdog(rep: &'static Report, class: &'static str, limit_s: u64) {
    std::thread::spawn(move || loop {
        std::thread::sleep(std::time::Duration::from_millis(500));
        let tick = TICK.fetch_add(1, Ordering::Relaxed) + 1;
        let now = now_ms();
        let slots: Vec<std::sync::Arc<WatchSlot>> = WATCH_SLOTS.lock().unwrap().clone();
        for s in slots {
            let since = s.since.load(Ordering::Acquire);
            if since != 0 && now.saturating_sub(since) > limit_s * 1000 {
                let input = s.input.lock().unwrap().clone();
                rep.violation(class, format!("the call on input {} has not returned after {limit_s} s", hexs(&input)), json!({"frame": hexs(&input), "group": "hang"}));
                rep.not_exhaustive("stopped by the hang watchdog");
                if let Some(f) = EMERGENCY_EXIT.get() {
                    f();
                }
                std::process::exit(3);
            }
            let t = s.since_tick.load(Ordering::Relaxed);
            if t != 0 && tick.saturating_sub(t) > 2 * limit_s {
                // a plain `guarded` call: the module's case description, if it set one
                let case: Vec<u64> = s.case.iter().map(|c| c.load(Ordering::Relaxed)).collect();
                let len = (case[0] >> 32) as usize;
                let mut bytes = Vec::new();
                for i in 0..len.min(24) {
                    bytes.push((case[1 + i / 8] >> (8 * (i % 8))) as u8);
                }
                rep.violation(
                    class,
                    format!("a call into the subject has not returned after {limit_s} s; case words {:#x} {:#x} {:#x} {:#x}{}", case[0] & 0xffff_ffff, case[1], case[2], case[3], if len > 0 { format!(" (bytes {})", hexs(&bytes)) } else { String::new() }),
                    json!({"kind": "hang", "case": case.iter().map(|c| format!("{c:#x}")).collect::<Vec<_>>(), "bytes": hexs(&bytes)}),
                );
                rep.not_exhaustive("stopped by the hang watchdog");
                if let Some(f) = EMERGENCY_EXIT.get() {
                    f();
                }
                std::process::exit(3);
            }
        }
    });
}

/// Reduce a panic message to a class key: drop numbers and addresses so that
/// the same panic site on different inputs is one class.
pub fn panic_class(msg: &str) -> String {
    let mut out = String::new();
    let mut last_hash = false;
    // quoted input text (`...`, '...') is not part of the class
    let mut plain = String::new();
    let mut quote: Option<char> = None;
    for c in msg.lines().next().unwrap_or("").chars() {
        match quote {
            Some(q) if c == q => {
                quote = None;
                plain.push(c);
            }
            Some(_) => {}
            None => {
                plain.push(c);
                if c == '`' {
                    quote = Some('`');
                }
            }
        }
    }
    for c in plain.chars() {
        if c.is_ascii_digit() {
            if !last_hash {
                out.push('#');
                last_hash = true;
            }
        } else {
            last_hash = false;
            out.push(if c == ' ' { '_' } else { c });
        }
    }
    while out.len() > 80 {
        out.pop();
    }
    out
}

/// splitmix64: used only for extra (non-deciding) backgrounds.
pub struct Rng(pub u64);
impl Rng {
    pub fn next(&mut self) -> u64 {
        self.0 = self.0.wrapping_add(0x9E3779B97F4A7C15);
        let mut z = self.0;
        z = (z ^ (z >> 30)).wrapping_mul(0xBF58476D1CE4E5B9);
        z = (z ^ (z >> 27)).wrapping_mul(0x94D049BB133111EB);
        z ^ (z >> 31)
    }
}

pub fn hexs(b: &[u8]) -> String {
    hex::encode(b)
}

pub fn unhex(s: &str) -> Vec<u8> {
    hex::decode(s).unwrap_or_default()
}

// ---------------------------------------------------------------------------
// R-CRC: bit-serial polynomial division, written from Annex 10 (generator
// x^24+x^23+...+x^10+x^3+1 = 0x1FFF409), no table.

pub const GENERATOR: u32 = 0x1FF_F409;

/// Remainder of the whole bit string (message incl. its last 24 bits) modulo
/// the generator.
pub fn ref_remainder(frame: &[u8]) -> u32 {
    let mut rem: u32 = 0;
    for &byte in frame {
        for b in (0..8).rev() {
            rem = (rem << 1) | ((byte >> b) & 1) as u32;
            if rem & 0x100_0000 != 0 {
                rem ^= GENERATOR;
            }
        }
    }
    rem & 0xFF_FFFF
}

/// Parity to append to `payload` (frame without its last 3 bytes) so that the
/// whole frame is divisible: remainder of payload * x^24.
pub fn ref_parity(payload: &[u8]) -> u32 {
    let mut v = payload.to_vec();
    v.extend_from_slice(&[0, 0, 0]);
    ref_remainder(&v)
}

/// Set the last three bytes so that the frame has syndrome 0 (PI with II=0)
/// XOR `overlay` (address for AP formats).
pub fn seal(frame: &mut [u8], overlay: u32) {
    let n = frame.len();
    let p = ref_parity(&frame[..n - 3]) ^ overlay;
    frame[n - 3] = (p >> 16) as u8;
    frame[n - 2] = (p >> 8) as u8;
    frame[n - 1] = p as u8;
}

/// Bit writer over a byte buffer: set `width` bits at bit offset `off`
/// (0 = MSB of byte 0).
pub fn set_bits(buf: &mut [u8], off: usize, width: usize, val: u64) {
    for i in 0..width {
        let bit = ((val >> (width - 1 - i)) & 1) as u8;
        let pos = off + i;
        let byte = pos / 8;
        let sh = 7 - (pos % 8);
        buf[byte] = (buf[byte] & !(1 << sh)) | (bit << sh);
    }
}

pub fn get_bits(buf: &[u8], off: usize, width: usize) -> u64 {
    let mut v = 0u64;
    for i in 0..width {
        let pos = off + i;
        v = (v << 1) | ((buf[pos / 8] >> (7 - (pos % 8))) & 1) as u64;
    }
    v
}

// R-GEO
pub const EARTH_R_M: f64 = 6_371_008.8;
pub fn haversine_m(lat1: f64, lon1: f64, lat2: f64, lon2: f64) -> f64 {
    let (p1, p2) = (lat1.to_radians(), lat2.to_radians());
    let dp = p2 - p1;
    let dl = (lon2 - lon1).to_radians();
    let a = (dp / 2.0).sin().powi(2) + p1.cos() * p2.cos() * (dl / 2.0).sin().powi(2);
    2.0 * EARTH_R_M * a.sqrt().min(1.0).asin()
}

//! C15 — FLARM: totality over (length x magic x fill x timestamp x reference),
//! inversion of an independent packet builder + XXTEA encryptor over every code
//! of every field, and the complete (ns0, ew0, ns1, ew1) space for track range.

use crate::common::*;
use rs1090::decode::flarm::Flarm;
use serde_json::{json, Value};
use std::sync::atomic::{AtomicU64, Ordering};

// ---------------------------------------------------------------------------
// R-FLARM: key schedule and XXTEA *encryption* (6 rounds, 5 words), written
// from the public description of the v6 protocol. The two key tables only
// exist in reverse-engineered form and are necessarily the same constants.

const K_A: [u64; 4] = [0xe43276df, 0xdca83759, 0x9802b8ac, 0x4675a56b];
const K_B: [u64; 4] = [0xfc78ea65, 0x804b90ea, 0xb76542cd, 0x329dfa32];
const XX_DELTA: u32 = 0x9E37_79B9;

fn scramble(key: u64, seed: u64) -> u32 {
    let m1 = (seed.wrapping_mul(key ^ (key >> 16))) as u32;
    let m2 = (seed.wrapping_mul((m1 ^ (m1 >> 16)) as u64)) as u32;
    m2 ^ (m2 >> 16)
}

pub fn ref_key(time: u32, addr24: u32) -> [u32; 4] {
    let table = if (time >> 23) & 1 == 1 { K_B } else { K_A };
    let a = ((addr24 as u64) << 8) & 0xff_ffff;
    let mut k = [0u32; 4];
    for i in 0..4 {
        k[i] = scramble(table[i] ^ (((time as u64) >> 6) ^ a), 0x045D_9F3B) ^ 0x87B5_62F4;
    }
    k
}

fn mx(sum: u32, y: u32, z: u32, p: usize, e: u32, k: &[u32; 4]) -> u32 {
    (((z >> 5) ^ (y << 2)).wrapping_add((y >> 3) ^ (z << 4))) ^ ((sum ^ y).wrapping_add(k[(p & 3) ^ e as usize] ^ z))
}

/// XXTEA encryption with a fixed number of rounds (Wheeler & Needham, 1998)
pub fn xxtea_encrypt(v: &mut [u32; 5], k: &[u32; 4], rounds: u32) {
    let n = v.len();
    let mut sum: u32 = 0;
    let mut z = v[n - 1];
    for _ in 0..rounds {
        sum = sum.wrapping_add(XX_DELTA);
        let e = (sum >> 2) & 3;
        for p in 0..n - 1 {
            let y = v[p + 1];
            v[p] = v[p].wrapping_add(mx(sum, y, z, p, e, k));
            z = v[p];
        }
        let y = v[0];
        v[n - 1] = v[n - 1].wrapping_add(mx(sum, y, z, n - 1, e, k));
        z = v[n - 1];
    }
}

#[derive(Clone, Copy, Debug)]
pub struct Fields {
    pub addr: u32,
    pub magic: u8,
    pub vs: u32,       // 10 bits
    pub stealth: bool, // bit 13
    pub no_track: bool, // bit 14
    pub gps: u32,      // 12 bits
    pub actype: u32,   // 4 bits
    pub lat_code: u32, // 19 bits
    pub alt: u32,      // 13 bits
    pub lon_code: u32, // 20 bits
    pub mult: u32,     // 2 bits
    pub ns: [i8; 4],
    pub ew: [i8; 4],
}

impl Fields {
    pub fn base() -> Fields {
        Fields { addr: 0x38f27b, magic: 0x10, vs: 0, stealth: false, no_track: false, gps: 0x123, actype: 1, lat_code: 0, alt: 160, lon_code: 0, mult: 0, ns: [4, 4, 4, 4], ew: [1, 1, 1, 1] }
    }
    pub fn words(&self) -> [u32; 5] {
        let w0 = (self.vs & 0x3ff) | ((self.stealth as u32) << 13) | ((self.no_track as u32) << 14) | ((self.gps & 0xfff) << 16) | ((self.actype & 0xf) << 28);
        let w1 = (self.lat_code & 0x7ffff) | ((self.alt & 0x1fff) << 19);
        let w2 = (self.lon_code & 0xfffff) | ((self.mult & 3) << 30);
        let pack = |b: &[i8; 4]| -> u32 { (0..4).fold(0u32, |a, i| a | ((b[i] as u8 as u32) << (8 * i))) };
        [w0, w1, w2, pack(&self.ns), pack(&self.ew)]
    }
    pub fn packet(&self, time: u32) -> Vec<u8> {
        let mut v = self.words();
        xxtea_encrypt(&mut v, &ref_key(time, self.addr), 6);
        let mut p = vec![self.addr as u8, (self.addr >> 8) as u8, (self.addr >> 16) as u8, self.magic];
        for w in v {
            p.extend_from_slice(&w.to_le_bytes());
        }
        // two trailing bytes (the radio packet's CRC-16): not interpreted by the decoder, but required
        p.extend_from_slice(&[0xa5, 0x5a]);
        p
    }
}

/// integer position code (units of 128e-7 degrees) of a coordinate
fn units(deg: f64) -> i64 {
    ((deg * 1e7) as i64) >> 7
}
fn center(code: i64) -> f64 {
    ((code << 7) + 0x40) as f64 * 1e-7
}
const STEP: f64 = 128e-7;

fn decode(time: u32, reference: &[f64; 2], pkt: &[u8]) -> Result<Result<Flarm, String>, String> {
    set_case_bytes(15, pkt);
    guarded(|| Flarm::from_record(time, reference, pkt).map_err(|e| e.to_string()))
}

fn finite_and_track(f: &Flarm) -> Option<(String, String)> {
    for (n, v) in [("latitude", f.latitude), ("longitude", f.longitude), ("vertical_speed", f.vertical_speed), ("groundspeed", f.groundspeed), ("track", f.track), ("reference_lat", f64::NAN), ("reference_lon", f64::NAN)] {
        if n.starts_with("reference") {
            continue; // echo of the caller's input, not a decoded number
        }
        if !v.is_finite() {
            return Some((format!("non-finite:{n}"), format!("{n} = {v}")));
        }
    }
    // every number of the record, whatever fields it has (a serde serializer that fails on the first non-finite number)
    {
        use serde::Serialize;
        if let Err(e) = f.serialize(crate::c07::FiniteCheck) {
            let key = e.0.split('@').nth(1).unwrap_or("").to_string();
            if e.0.starts_with("non-finite") && !key.starts_with("reference") {
                return Some((format!("non-finite:{key}"), format!("{} in the serialised record", e.0)));
            }
        }
    }
    if !(f.track >= 0.0 && f.track < 360.0) {
        return Some(("track-range".into(), format!("track = {} is outside [0, 360)", f.track)));
    }
    None
}

fn wit(time: u32, reference: &[f64; 2], pkt: &[u8]) -> Value {
    json!({"timestamp": time, "reference": [format!("{:e}", reference[0]), format!("{:e}", reference[1])], "packet": hexs(pkt)})
}

fn check_total(time: u32, reference: &[f64; 2], pkt: &[u8], rep: &Report) -> u8 {
    match decode(time, reference, pkt) {
        Err(p) => {
            rep.violation(&format!("panic:{}:{}", last_panic_file(), panic_class(&p)), format!("from_record panicked at {}: {p}", last_panic_loc()), wit(time, reference, pkt));
            2
        }
        Ok(Err(_)) => 0,
        Ok(Ok(f)) => {
            if let Some((c, w)) = finite_and_track(&f) {
                rep.violation(&c, w, wit(time, reference, pkt));
            }
            1
        }
    }
}

thread_local! {
    /// the call made just before the judged one (two-call sequences): part of the witness
    static PRIOR: std::cell::RefCell<Option<(u32, Vec<u8>)>> = const { std::cell::RefCell::new(None) };
}

fn wit_inv(fl: &Fields, time: u32, reference: &[f64; 2], true_pos: Option<(f64, f64)>, pkt: &[u8]) -> Value {
    let mut w = wit(time, reference, pkt);
    PRIOR.with(|p| {
        if let Some((t, pk)) = &*p.borrow() {
            w["prior_call"] = json!({"timestamp": t, "packet": hexs(pk)});
        }
    });
    w["fields"] = json!({"addr": fl.addr, "magic": fl.magic, "vs": fl.vs, "stealth": fl.stealth, "no_track": fl.no_track, "gps": fl.gps, "actype": fl.actype,
        "lat_code": fl.lat_code, "alt": fl.alt, "lon_code": fl.lon_code, "mult": fl.mult, "ns": fl.ns, "ew": fl.ew});
    if let Some((la, lo)) = true_pos {
        w["true_position"] = json!([format!("{la:e}"), format!("{lo:e}")]);
    }
    w
}

fn check_inverse(fl: &Fields, time: u32, reference: &[f64; 2], true_pos: Option<(f64, f64)>, rep: &Report) {
    let pkt = fl.packet(time);
    match decode(time, reference, &pkt) {
        Err(p) => rep.violation(&format!("panic:{}:{}", last_panic_file(), panic_class(&p)), format!("from_record panicked at {}: {p}", last_panic_loc()), wit_inv(fl, time, reference, true_pos, &pkt)),
        Ok(Err(e)) => rep.violation("inverse:rejected", format!("a packet built by the reference encoder is rejected: {e}"), wit_inv(fl, time, reference, true_pos, &pkt)),
        Ok(Ok(f)) => {
            if let Some((c, w)) = finite_and_track(&f) {
                rep.violation(&c, w, wit_inv(fl, time, reference, true_pos, &pkt));
            }
            let mut bad = |field: &str, what: String| rep.violation(&format!("inverse:{field}"), what, wit_inv(fl, time, reference, true_pos, &pkt));
            if format!("{}", f.icao24) != format!("{:06x}", fl.addr) {
                bad("address", format!("address {:06x} decoded as {}", fl.addr, f.icao24));
            }
            if f.is_icao24 != (fl.magic == 0x10) {
                bad("address-type", format!("magic {:#x} decoded as is_icao24={}", fl.magic, f.is_icao24));
            }
            let ty = format!("{:?}", f.actype);
            const TYPES: [&str; 16] = ["Unknown", "Glider", "Towplane", "Helicopter", "Parachute", "DropPlane", "Hangglider", "Paraglider", "Aircraft", "Jet", "UFO", "Balloon", "Airship", "UAV", "Reserved", "StaticObstacle"];
            if ty != TYPES[fl.actype as usize] {
                bad("type", format!("aircraft type {} decoded as {ty}", fl.actype));
            }
            if f.stealth != fl.stealth || f.no_track != fl.no_track {
                bad("flags", format!("stealth/no_track {}/{} decoded as {}/{}", fl.stealth, fl.no_track, f.stealth, f.no_track));
            }
            if f.geoaltitude != fl.alt {
                bad("altitude", format!("altitude {} decoded as {}", fl.alt, f.geoaltitude));
            }
            // the decoded position fed back as the reference (a receiver on board, a previous fix): same record, all finite
            if fl.lat_code % 4 == fl.lon_code % 4 && f.latitude.is_finite() && f.longitude.is_finite() {
                let back = [f.latitude, f.longitude];
                match decode(time, &back, &pkt) {
                    Err(p) => bad("feedback", format!("from_record panicked when the decoded position {back:?} is given as the reference: {p}")),
                    Ok(Err(e)) => bad("feedback", format!("the packet is rejected when its own decoded position {back:?} is given as the reference: {e}")),
                    Ok(Ok(g)) => {
                        if let Some((c, w)) = finite_and_track(&g) {
                            rep.violation(&format!("feedback:{c}"), format!("with the decoded position {back:?} as the reference: {w}"), wit_inv(fl, time, &back, true_pos, &pkt));
                        }
                        if (g.latitude - f.latitude).abs() > STEP * 1.0001 || (g.longitude - f.longitude).abs() > STEP * 1.0001 {
                            bad("feedback", format!("decoded ({}, {}) against the reference, ({}, {}) against its own decoded position", f.latitude, f.longitude, g.latitude, g.longitude));
                        }
                    }
                }
            }
            if let Some((lat, lon)) = true_pos {
                if (f.latitude - lat).abs() > STEP * 1.0001 {
                    bad("latitude", format!("true latitude {lat} decoded as {} with reference {}", f.latitude, reference[0]));
                }
                if (f.longitude - lon).abs() > STEP * 1.0001 {
                    bad("longitude", format!("true longitude {lon} decoded as {} with reference {}", f.longitude, reference[1]));
                }
            }
        }
    }
}

pub fn run(ctx: &Ctx, rep: &Report) {
    rep.set_rule("totality: length x magic byte x fill x timestamp x reference; inversion: every code of each field in packets built and encrypted by the reference implementation; track: the (ns0,ew0,ns1,ew1) space; non-trivial = packets that decode to a record");
    rep.assume("the two XXTEA key tables and the scrambling constants only exist in reverse-engineered form and are shared with the code under test");
    let thorough = ctx.thorough();
    let accepted = AtomicU64::new(0);
    let total = AtomicU64::new(0);
    let oc = std::sync::Mutex::new([0u64; 3]);
    // (a) totality
    let times: [u32; 7] = [0, (1 << 23) - 1, 1 << 23, 1 << 24, 1_655_274_034, u32::MAX, 63];
    let refs: Vec<[f64; 2]> = vec![
        [0.0, 0.0],
        [90.0, 180.0],
        [-90.0, -180.0],
        [f64::NAN, f64::NAN],
        [f64::INFINITY, f64::NEG_INFINITY],
        [1e300, -1e300],
        [43.61924, 5.11755],
        [f64::MAX, f64::MIN_POSITIVE],
        [214.7483647, 214.7483648],
        [-214.7483648, -214.7483649],
    ];
    par_ranges(ctx.threads, 41 * 256, 64, |lo, hi| {
        let mut local = [0u64; 3];
        let mut n = 0u64;
        for i in lo..hi {
            let (len, magic) = ((i / 256) as usize, (i % 256) as u8);
            for fill in [0x00u8, 0xff, 0x5a] {
                let mut pkt = vec![fill; len];
                if len > 3 {
                    pkt[3] = magic;
                }
                for t in times {
                    for r in &refs {
                        local[check_total(t, r, &pkt, rep) as usize] += 1;
                        n += 1;
                    }
                }
            }
        }
        total.fetch_add(n, Ordering::Relaxed);
        accepted.fetch_add(local[1], Ordering::Relaxed);
        let mut g = oc.lock().unwrap();
        for k in 0..3 {
            g[k] += local[k];
        }
    });
    for len in [41usize, 44, 45, 46, 63, 64, 65, 100, 255, 256, 1000, 70_000] {
        for magic in [0x10u8, 0x20, 0x00] {
            for fill in [0x00u8, 0xff, 0x5a] {
                let mut pkt = vec![fill; len];
                pkt[3] = magic;
                for r in &refs {
                    let c = check_total(1_655_274_034, r, &pkt, rep);
                    oc.lock().unwrap()[c as usize] += 1;
                    total.fetch_add(1, Ordering::Relaxed);
                    if c == 1 {
                        accepted.fetch_add(1, Ordering::Relaxed);
                    }
                }
            }
        }
    }
    rep.part("totality", total.load(Ordering::Relaxed), json!({"lengths": "0..=40", "magic": 256, "fills": 3, "timestamps": times.len(), "references": refs.len()}));
    // well-formed packets against the adversarial references (decode path really runs)
    {
        let mut n = 0u64;
        for t in times {
            for r in &refs {
                for lat_code in [0u32, 1, 0x3ffff, 0x40000, 0x7ffff] {
                    for lon_code in [0u32, 0x7ffff, 0x80000, 0xfffff] {
                        let f = Fields { lat_code, lon_code, ..Fields::base() };
                        let c = check_total(t, r, &f.packet(t), rep);
                        n += 1;
                        if c == 1 {
                            accepted.fetch_add(1, Ordering::Relaxed);
                        }
                    }
                }
            }
        }
        total.fetch_add(n, Ordering::Relaxed);
        rep.part("totality, well-formed packets x adversarial references", n, json!({}));
    }
    // (b) inversion of the reference encoder
    let base_t = 1_655_274_034u32;
    let base_ref = [43.61924, 5.11755];
    let before = total.load(Ordering::Relaxed);
    let mut n = 0u64;
    for actype in 0..16 {
        for flags in 0..4u32 {
            for magic in [0x10u8, 0x20] {
                let f = Fields { actype, stealth: flags & 1 == 1, no_track: flags & 2 == 2, magic, ..Fields::base() };
                check_inverse(&f, base_t, &base_ref, None, rep);
                n += 1;
            }
        }
    }
    par_ranges(ctx.threads, 8192, 256, |lo, hi| {
        for alt in lo as u32..hi as u32 {
            check_inverse(&Fields { alt, ..Fields::base() }, base_t, &base_ref, None, rep);
        }
    });
    n += 8192;
    par_ranges(ctx.threads, 4096, 256, |lo, hi| {
        for gps in lo as u32..hi as u32 {
            check_inverse(&Fields { gps, vs: gps & 0x3ff, ..Fields::base() }, base_t, &base_ref, None, rep);
        }
    });
    n += 4096;
    // addresses: every 16-bit window of the 24-bit address, two backgrounds
    for sh in [0u32, 4, 8] {
        for bg in [0u32, 0xffffff] {
            par_ranges(ctx.threads, 65536, 1024, |lo, hi| {
                for w in lo as u32..hi as u32 {
                    let addr = (bg & !(0xffff << sh)) | (w << sh);
                    check_inverse(&Fields { addr, ..Fields::base() }, base_t, &base_ref, None, rep);
                }
            });
            n += 65536;
        }
    }
    // timestamps: both sides of every change of bit 23 (key table) and bit 6 (key material)
    let mut ts: Vec<u32> = Vec::new();
    for k in 0..512u32 {
        let edge = k << 23;
        for d in [-65i64, -64, -1, 0, 1, 63, 64, 65] {
            let t = edge as i64 + d;
            if (0..=u32::MAX as i64).contains(&t) {
                ts.push(t as u32);
            }
        }
    }
    for t in 0..4096u32 {
        ts.push(base_t.wrapping_add(t));
    }
    par_ranges(ctx.threads, ts.len() as u64, 256, |lo, hi| {
        for t in &ts[lo as usize..hi as usize] {
            check_inverse(&Fields::base(), *t, &base_ref, None, rep);
        }
    });
    n += ts.len() as u64;
    // crosses: both key tables (time bit 23) x address bit patterns x both address kinds x every aircraft type,
    // positions in all four hemispheres
    {
        let cross_t: [u32; 6] = [0x0080_0000 - 64, 0x0080_0000, 1_655_274_034, 1_655_274_034 ^ 0x0080_0000, 0x7fff_ffc0, 0xffff_ffff];
        let cross_a: [u32; 8] = [0x000000, 0x000001, 0x800000, 0x7fffff, 0xffffff, 0x00ff00, 0xa5a5a5, 0x38f27b];
        let cross_ref: [[f64; 2]; 5] = [[43.6, 5.1], [-33.9, 18.6], [40.7, -74.0], [-34.6, -58.4], [64.1, 151.2]];
        let jobs: Vec<(u32, u32, usize)> = cross_t.iter().flat_map(|t| cross_a.iter().flat_map(move |a| (0..cross_ref.len()).map(move |r| (*t, *a, r)))).collect();
        par_ranges(ctx.threads, jobs.len() as u64, 4, |lo, hi| {
            for (t, a, ri) in &jobs[lo as usize..hi as usize] {
                let r = cross_ref[*ri];
                let (rl, ro) = (units(r[0]), units(r[1]));
                for magic in [0x10u8, 0x20] {
                    for actype in 0..16u32 {
                        for (dl, dn) in [(0i64, 0i64), (-1000, 777), (123_456, -200_000), (-(1 << 18) + 1, (1 << 19) - 1)] {
                            let (tl, tn) = (rl + dl, ro + dn);
                            let f = Fields { addr: *a, magic, actype, stealth: actype & 1 == 1, no_track: actype & 2 == 2, alt: 100 + 37 * actype, lat_code: (tl & 0x7ffff) as u32, lon_code: (tn & 0xfffff) as u32, ..Fields::base() };
                            check_inverse(&f, *t, &r, Some((center(tl), center(tn))), rep);
                        }
                    }
                }
            }
        });
        n += jobs.len() as u64 * 2 * 16 * 4;
    }
    // the ends of the Earth: true positions exactly on a pole or on the 180th meridian (their cell centre lies 0.7 m
    // beyond), and the cells next to them, seen from references close by
    {
        let ends: [([f64; 2], f64, f64); 6] = [
            ([89.99, 10.0], 90.0, 10.0),
            ([-89.99, -60.0], -90.0, -60.0),
            ([10.0, 179.99], 10.0, 180.0),
            ([-20.0, -179.99], -20.0, -180.0),
            ([89.995, 179.995], 90.0, 180.0),
            ([-89.995, -179.995], -90.0, -180.0),
        ];
        for (r, lat, lon) in ends {
            for dl in [-2i64, -1, 0] {
                for dn in [-2i64, -1, 0] {
                    let tl = units(lat) - lat.signum() as i64 * (-dl);
                    let tn = units(lon) - lon.signum() as i64 * (-dn);
                    for magic in [0x10u8, 0x20] {
                        let f = Fields { magic, lat_code: (tl & 0x7ffff) as u32, lon_code: (tn & 0xfffff) as u32, ..Fields::base() };
                        check_inverse(&f, base_t, &r, Some((center(tl), center(tn))), rep);
                        n += 1;
                    }
                }
            }
        }
    }
    // truncated and over-long well-formed packets (the decoder must answer with a record or an error)
    {
        let full = Fields::base().packet(base_t);
        let mut lens: Vec<usize> = (0..=96).collect();
        lens.extend([100, 127, 128, 129, 200, 255, 256, 257, 511, 512, 1000, 1024, 4096, 65_535, 65_536, 100_000]);
        for len in lens {
            let mut p = full.clone();
            p.resize(len, 0x77);
            let c = check_total(base_t, &base_ref, &p, rep);
            oc.lock().unwrap()[c as usize] += 1;
            n += 1;
        }
    }
    total.fetch_add(n, Ordering::Relaxed);
    accepted.fetch_add(n, Ordering::Relaxed);
    rep.part("inversion: type/flags/altitude/address/timestamp", total.load(Ordering::Relaxed) - before, json!({"timestamps": ts.len()}));
    // sequences of two calls (a memo of derived keys would be hidden state): decode one packet, then a packet whose
    // (timestamp, address) differs in one timestamp bit and in none, one or two address bits, and hold the second
    // to the inversion oracle; both orders. One thread: the calls of a pair must be consecutive.
    {
        let before = total.load(Ordering::Relaxed);
        let bases: Vec<(u32, u32)> = if thorough {
            vec![(1_646_885_426, 0x38f27b), (1_655_274_034, 0x38f27b), (0x0080_0000, 0x000000), (0x7fff_ffc0, 0xffffff), (63, 0xa5a5a5), (0xffff_ffff, 0x00ff00), (1 << 24, 0x800001), (1_700_000_000, 0x4840d6)]
        } else {
            vec![(1_646_885_426, 0x38f27b), (0x7fff_ffc0, 0xffffff), (63, 0xa5a5a5)]
        };
        let mut n = 0u64;
        for (t0, a0) in bases {
            let mut amasks: Vec<u32> = vec![0];
            for i in 0..24 {
                amasks.push(1 << i);
                for j in 0..i {
                    amasks.push((1 << i) | (1 << j));
                }
            }
            let mut tmasks: Vec<u32> = vec![0];
            tmasks.extend((0..32).map(|b| 1u32 << b));
            tmasks.extend([0x40 | (1 << 23), 0xffff_ffc0, 0x3f]);
            for tm in &tmasks {
                for am in &amasks {
                    if *tm == 0 && *am == 0 {
                        continue;
                    }
                    let (t1, a1) = (t0 ^ tm, a0 ^ am);
                    let f0 = Fields { addr: a0, actype: 2, no_track: true, alt: 1250, ..Fields::base() };
                    let f1 = Fields { addr: a1, actype: 2, no_track: true, alt: 1250, ..Fields::base() };
                    for (fa, ta, fb, tb) in [(&f0, t0, &f1, t1), (&f1, t1, &f0, t0)] {
                        let prior = fa.packet(ta);
                        let _ = decode(ta, &base_ref, &prior);
                        PRIOR.with(|p| *p.borrow_mut() = Some((ta, prior)));
                        check_inverse(fb, tb, &base_ref, None, rep);
                        PRIOR.with(|p| *p.borrow_mut() = None);
                        n += 2;
                    }
                }
            }
        }
        total.fetch_add(n, Ordering::Relaxed);
        accepted.fetch_add(n, Ordering::Relaxed);
        rep.part("two-call sequences over timestamp-bit x address-bit neighbours", total.load(Ordering::Relaxed) - before, json!({"pairs": n / 2}));
    }
    // longer sequences (a small cache with a replacement policy is hidden state that two calls cannot reach): every
    // sequence of 6 (thorough 8) calls over 5 (6) devices / key slots, every call held to the inversion oracle
    {
        let before = total.load(Ordering::Relaxed);
        let t0 = 1_646_885_426u32;
        let mut syms: Vec<(u32, u32)> = vec![(t0, 0x38f27b), (t0 + 64, 0x38f27b), (t0, 0x38f26b), (t0 + 128, 0x38f07b), (t0 ^ (1 << 23), 0x3af27b)];
        if thorough {
            syms.push((t0 + 64, 0x38f26b));
        }
        let k = syms.len();
        let len = if thorough { 8 } else { 6 };
        let fields: Vec<Fields> = syms.iter().enumerate().map(|(i, (_, a))| Fields { addr: *a, actype: 1 + i as u32, alt: 1000 + 10 * i as u32, no_track: i % 2 == 1, ..Fields::base() }).collect();
        let cnt = AtomicU64::new(0);
        par_items(ctx.threads, k * k, |sh| {
            let mut idx = vec![0usize; len];
            idx[0] = sh % k;
            idx[1] = sh / k;
            let mut n = 0u64;
            'outer: loop {
                for (pos, i) in idx.iter().enumerate() {
                    if pos > 0 {
                        let (pt, pf) = (syms[idx[pos - 1]].0, &fields[idx[pos - 1]]);
                        PRIOR.with(|p| *p.borrow_mut() = Some((pt, pf.packet(pt))));
                    }
                    check_inverse(&fields[*i], syms[*i].0, &base_ref, None, rep);
                    n += 1;
                }
                PRIOR.with(|p| *p.borrow_mut() = None);
                if stopped() {
                    break;
                }
                let mut d = len;
                loop {
                    if d == 2 {
                        break 'outer;
                    }
                    d -= 1;
                    idx[d] += 1;
                    if idx[d] < k {
                        break;
                    }
                    idx[d] = 0;
                }
            }
            cnt.fetch_add(n, Ordering::Relaxed);
        });
        let n = cnt.load(Ordering::Relaxed);
        total.fetch_add(n, Ordering::Relaxed);
        accepted.fetch_add(n, Ordering::Relaxed);
        rep.part("call sequences over a handful of devices and key slots", total.load(Ordering::Relaxed) - before, json!({"symbols": k, "length": len, "sequences": (k as u64).pow(len as u32)}));
    }
    // a feed over time (state that ages: generation counters, caches keyed by the key period): device A is heard, then
    // k key periods (64 s each) pass in which other devices are heard in EVERY period, then A is heard again in the
    // period reached; every call is held to the inversion oracle. k runs through every value up to 600 (thorough 1100),
    // which covers the wrap-around of any 8-bit counter and of ring caches up to that size.
    {
        let before = total.load(Ordering::Relaxed);
        let kmax: u32 = if thorough { 1100 } else { 600 };
        let t0 = 1_646_885_440u32; // a multiple of 64
        let a = Fields { addr: 0x38f27b, actype: 1, alt: 160, ..Fields::base() };
        let cnt = AtomicU64::new(0);
        par_items(ctx.threads, kmax as usize, |ki| {
            let k = ki as u32 + 1;
            let mut n = 0u64;
            for others in [1u32, 3] {
                // a fresh thread: whatever the subject remembers starts empty, as in a process that has just started
                std::thread::scope(|sc| {
                    sc.spawn(|| {
                        check_inverse(&a, t0 + 5, &base_ref, None, rep);
                        for step in 1..=k {
                            for d in 0..others {
                                let f = Fields { addr: 0x3a0000 + ((step * 7 + d) % 251) * 0x101, actype: 2 + (d % 10), alt: 300 + (step % 4000), no_track: d == 1, ..Fields::base() };
                                check_inverse(&f, t0 + 64 * step + 3 + d, &base_ref, None, rep);
                            }
                        }
                        PRIOR.with(|p| *p.borrow_mut() = Some((t0 + 5, a.packet(t0 + 5))));
                        check_inverse(&a, t0 + 64 * k + 9, &base_ref, None, rep);
                        PRIOR.with(|p| *p.borrow_mut() = None);
                    });
                });
                n += 2 + (k * others) as u64;
                if stopped() {
                    break;
                }
            }
            cnt.fetch_add(n, Ordering::Relaxed);
        });
        let n = cnt.load(Ordering::Relaxed);
        total.fetch_add(n, Ordering::Relaxed);
        accepted.fetch_add(n, Ordering::Relaxed);
        rep.part("a feed over time: a device heard again after k key periods in which other devices were heard", total.load(Ordering::Relaxed) - before, json!({"k": format!("1..={kmax}"), "other_devices_per_period": [1, 3]}));
    }
    // positions: every latitude / longitude code inside the window of each reference
    let before = total.load(Ordering::Relaxed);
    let pos_refs: Vec<[f64; 2]> = {
        let mut v = vec![[0.0, 0.0], [43.61924, 5.11755], [-33.9, 18.6], [89.9, 179.99], [-89.9, -179.99], [0.00001, -0.00001], [51.5, -0.12], [-0.00001, 0.00001], [35.7, 139.7], [64.1, -21.9], [-54.8, -68.3], [1.35, 103.99]];
        if !thorough {
            v.truncate(3);
        }
        v
    };
    for r in &pos_refs {
        let (rl, ro) = (units(r[0]), units(r[1]));
        let cnt = AtomicU64::new(0);
        par_ranges(ctx.threads, 1 << 19, 4096, |lo, hi| {
            let mut c = 0;
            for d in lo..hi {
                let t = rl + d as i64 - (1 << 18);
                let lat = center(t);
                if lat.abs() > 90.0 {
                    continue;
                }
                let f = Fields { lat_code: (t & 0x7ffff) as u32, lon_code: (ro & 0xfffff) as u32, ..Fields::base() };
                check_inverse(&f, base_t, r, Some((lat, center(ro))), rep);
                c += 1;
            }
            cnt.fetch_add(c, Ordering::Relaxed);
        });
        par_ranges(ctx.threads, 1 << 20, 4096, |lo, hi| {
            let mut c = 0;
            for d in lo..hi {
                let t = ro + d as i64 - (1 << 19);
                let lon = center(t);
                if lon.abs() > 180.0 {
                    continue;
                }
                let f = Fields { lat_code: (rl & 0x7ffff) as u32, lon_code: (t & 0xfffff) as u32, ..Fields::base() };
                check_inverse(&f, base_t, r, Some((center(rl), lon)), rep);
                c += 1;
            }
            cnt.fetch_add(c, Ordering::Relaxed);
        });
        total.fetch_add(cnt.load(Ordering::Relaxed), Ordering::Relaxed);
        accepted.fetch_add(cnt.load(Ordering::Relaxed), Ordering::Relaxed);
    }
    rep.part("inversion: all position codes per reference", total.load(Ordering::Relaxed) - before, json!({"references": pos_refs.len()}));
    // (c) track range / finiteness over the velocity components
    let before = total.load(Ordering::Relaxed);
    // boundary subset of a signed byte (sign changes, powers of two, extremes)
    let edge: Vec<i8> = vec![-128, -127, -100, -64, -33, -32, -17, -8, -4, -3, -2, -1, 0, 1, 2, 3, 4, 5, 8, 16, 17, 31, 32, 33, 63, 64, 65, 99, 100, 126, 127, 50];
    let full: Vec<i8> = (-128i16..=127).map(|v| v as i8).collect();
    // plans: (values of ns0/ew0, values of ns1/ew1)
    let plans: Vec<(&Vec<i8>, &Vec<i8>)> = if thorough { vec![(&full, &edge), (&edge, &full)] } else { vec![(&edge, &edge)] };
    let track_outcomes = std::sync::Mutex::new(std::collections::BTreeMap::<String, u64>::new());
    let mut tuples = 0u64;
    for (first, second) in &plans {
        let (k1, k2) = (first.len() as u64, second.len() as u64);
        tuples += k1 * k1 * k2 * k2;
        par_ranges(ctx.threads, k1 * k1, 8, |lo, hi| {
            let mut c = 0u64;
            let mut quad = [0u64; 4];
            for i in lo..hi {
                let (a, b) = (first[(i / k1) as usize], first[(i % k1) as usize]);
                for &c1 in second.iter() {
                    for &d1 in second.iter() {
                        let f = Fields { ns: [a, c1, 0, 0], ew: [b, d1, 0, 0], mult: 0, ..Fields::base() };
                        let pkt = f.packet(base_t);
                        match decode(base_t, &base_ref, &pkt) {
                            Ok(Ok(fl)) => {
                                if let Some((cl, w)) = finite_and_track(&fl) {
                                    rep.violation(&cl, format!("{w} for ns={:?} ew={:?}", f.ns, f.ew), wit(base_t, &base_ref, &pkt));
                                } else {
                                    quad[((fl.track / 90.0) as usize).min(3)] += 1;
                                }
                            }
                            Ok(Err(e)) => rep.violation("inverse:rejected", format!("a packet built by the reference encoder is rejected: {e}"), wit(base_t, &base_ref, &pkt)),
                            Err(p) => rep.violation(&format!("panic:{}:{}", last_panic_file(), panic_class(&p)), format!("from_record panicked: {p}"), wit(base_t, &base_ref, &pkt)),
                        }
                        c += 1;
                    }
                }
                if stopped() {
                    break;
                }
            }
            total.fetch_add(c, Ordering::Relaxed);
            accepted.fetch_add(c, Ordering::Relaxed);
            let mut g = track_outcomes.lock().unwrap();
            for (q, n) in quad.iter().enumerate() {
                *g.entry(format!("track in quadrant {q}")).or_insert(0) += n;
            }
        });
    }
    rep.part("track range over (ns0, ew0, ns1, ew1)", total.load(Ordering::Relaxed) - before, json!({"plans": if thorough { "all 256^2 (ns0,ew0) x 32^2 boundary (ns1,ew1) and the converse" } else { "32^4 boundary values" }, "tuples": tuples}));
    let g = oc.lock().unwrap();
    rep.outcome("rejected", g[0]);
    rep.outcome("decoded", g[1]);
    if g[2] > 0 {
        rep.outcome("panic", g[2]);
    }
    rep.merge_outcomes(&track_outcomes.lock().unwrap());
    let ex = Fields::base();
    rep.sample(json!({"fields": format!("{ex:?}"), "timestamp": base_t, "packet": hexs(&ex.packet(base_t))}));
    let t = total.load(Ordering::Relaxed);
    rep.eval(t);
    rep.trans(t);
    rep.state(t);
    rep.nontriv(accepted.load(Ordering::Relaxed));
    rep.set_bound(&format!("lengths 0..=40 x 256 magic bytes x 3 fills x 7 timestamps x 10 references, 12 longer lengths up to 70,000 bytes, a valid packet cut or padded to 0..=96 and 16 longer lengths; all 16 types x flags, all 8192 altitudes, 4096 gps codes, 6 x 65536 address windows, {} timestamps, all 2^19 latitude and 2^20 longitude codes for {} references, {} velocity component tuples", ts.len(), pos_refs.len(), tuples));
    if !thorough {
        rep.not_exhaustive("quick tier: 3 position references, 32 boundary values per velocity component");
    } else {
        rep.not_exhaustive("the 2^32 velocity tuples are covered as all (ns0,ew0) x boundary (ns1,ew1) and the converse, not as the full product");
    }
}

pub fn replay(w: &Value, rep: &Report) {
    let t = w["timestamp"].as_u64().unwrap_or(0) as u32;
    let r: Vec<f64> = w["reference"].as_array().map(|a| a.iter().map(|x| x.as_str().and_then(|s| s.parse::<f64>().ok()).unwrap_or(f64::NAN)).collect()).unwrap_or(vec![0.0, 0.0]);
    let pkt = unhex(w["packet"].as_str().unwrap_or(""));
    let reference = [r[0], r[1]];
    if let Some(pc) = w.get("prior_call") {
        let _ = decode(pc["timestamp"].as_u64().unwrap_or(0) as u32, &reference, &unhex(pc["packet"].as_str().unwrap_or("")));
    }
    if let Some(f) = w.get("fields") {
        let arr = |k: &str| -> [i8; 4] {
            let mut o = [0i8; 4];
            if let Some(a) = f[k].as_array() {
                for (i, x) in a.iter().take(4).enumerate() {
                    o[i] = x.as_i64().unwrap_or(0) as i8;
                }
            }
            o
        };
        let u = |k: &str| f[k].as_u64().unwrap_or(0) as u32;
        let fl = Fields { addr: u("addr"), magic: u("magic") as u8, vs: u("vs"), stealth: f["stealth"].as_bool().unwrap_or(false), no_track: f["no_track"].as_bool().unwrap_or(false), gps: u("gps"), actype: u("actype"), lat_code: u("lat_code"), alt: u("alt"), lon_code: u("lon_code"), mult: u("mult"), ns: arr("ns"), ew: arr("ew") };
        let tp = w.get("true_position").and_then(|a| a.as_array()).map(|a| (a[0].as_str().and_then(|s| s.parse().ok()).unwrap_or(f64::NAN), a[1].as_str().and_then(|s| s.parse().ok()).unwrap_or(f64::NAN)));
        check_inverse(&fl, t, &reference, tp, rep);
    } else {
        check_total(t, &reference, &pkt, rep);
    }
    rep.trans(1);
    rep.state(1);
    rep.sample(w.clone());
    rep.outcome("replayed", 1);
}

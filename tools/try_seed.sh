#!/bin/sh
# usage: tools/try_seed.sh <patch.diff> <tier> <ID> [<ID> ...]
# Applies a seeded change to /repo, runs the given checks, and ALWAYS restores /repo afterwards.
# Never commits anything in /repo. Exit code: number of checks that stayed silent (0 = all caught it).
patch="$1"; tier="$2"; shift 2
# SEED_REPO=<scratch worktree>: apply the change there instead of /repo (own build directories, /repo untouched)
R="${SEED_REPO:-/repo}"
cd /verif || exit 99
if [ -n "$(git -C "$R" status --porcelain --untracked-files=no)" ]; then echo "/repo has local edits; refusing"; exit 98; fi
if ! git -C "$R" apply --check "$patch" 2>/dev/null; then echo "patch does not apply: $patch"; exit 97; fi
git -C "$R" apply "$patch"
trap 'git -C "$R" checkout -- . ; git -C "$R" clean -fdq -- crates python 2>/dev/null' EXIT INT TERM
silent=0
for id in "$@"; do
  out=$(VERIF_REPO_DIR="$R" VERIF_SCRATCH=/tmp/seedrun${SEED_REPO:+_$(basename "$SEED_REPO")} bin/check "$id" --tier "$tier" 2>/dev/null); rc=$?
  echo "$out" | grep -E "^VIOLATION|^  class=|^KNOWN|$id $tier:" | cut -c1-330
  echo "== $id exit=$rc"
  [ $rc -eq 1 ] || silent=$((silent+1))
done
exit $silent

#!/usr/bin/env python3
"""Systematic mutation campaign (calibration of the checks; never part of a verdict, never touches /repo).

usage: tools/mutate.py --lane N --files <repo-relative file>[,...] [--per-file K] [--seed S] [--out FILE] [--tier quick]

A lane is a scratch git worktree of /repo (/tmp/mut_lane_N, created on demand, with its own build directories).
For every sampled mutation site of every file:  write the mutant -> run the crate's own tests (a mutant the
repository's suite already rejects is of no interest) -> run the quick checks of the properties anchored in that
file, most specific first, until one reports -> restore the file.  One JSON line per mutant goes to --out:
  status = no-compile | suite-kills | caught (by=<ID>, class=...) | SURVIVED | machinery
Survivors are either equivalent / outside every property, or a blind spot of the checks: they are read by hand.

Operators (token level, on code lines outside #[cfg(test)] modules, comments, attributes and `use` lines):
  relational  < <= > >= == !=  (boundary shift and negation),  + <-> -,  * -> /,  && <-> ||,
  integer literal n -> n+1,  hex literal -> one bit changed,  float literal f -> f+1 (|f|>=1) or 2f.
"""
import argparse, json, os, random, re, subprocess, sys, time, hashlib

VERIF = os.path.dirname(os.path.dirname(os.path.abspath(__file__)))

# file (regex on the repo-relative path) -> checks, most specific oracle first
MAP = [
    (r"decode/crc\.rs$", ["C02"]),
    (r"decode/cpr\.rs$", ["C04", "C05", "C06", "C16"]),
    (r"decode/flarm\.rs$", ["C15"]),
    (r"decode/time\.rs$", ["C18"]),
    (r"source/beast\.rs$", ["C09"]),
    (r"data/(tail|patterns)\.rs$", ["C14"]),
    (r"decode/mod\.rs$", ["C13", "C02", "C03", "C01", "C07", "C08"]),
    (r"decode/adsb\.rs$", ["C03", "C07", "C01", "C08"]),
    (r"decode/commb\.rs$", ["C03", "C08", "C01", "C07"]),
    (r"decode/bds/bds05\.rs$", ["C13", "C03", "C08", "C01", "C07"]),
    (r"decode/bds/.*\.rs$", ["C03", "C08", "C01", "C07"]),
    (r"jet1090/src/dedup\.rs$", ["C10"]),
    (r"decode1090/src/main\.rs$", ["C10", "C06", "C07"]),
    (r"jet1090/src/filters\.rs$", ["C11"]),
    (r"jet1090/src/snapshot\.rs$", ["C12"]),
    (r"jet1090/src/source\.rs$", ["C16"]),
    (r"jet1090/src/main\.rs$", ["C06", "C11", "C10", "C12", "C07", "C17"]),
    (r"jet1090/src/web\.rs$", ["C12"]),
    (r"python/src/lib\.rs$", ["C06"]),
    (r"jet1090/src/(table|tui)\.rs$", ["C17", "C12"]),
]


def checks_for(path):
    for rx, ids in MAP:
        if re.search(rx, path):
            return ids
    return []


REL = {" < ": [" <= ", " >= "], " <= ": [" < "], " > ": [" >= ", " <= "], " >= ": [" > "], " == ": [" != "], " != ": [" == "]}
ARI = {" + ": [" - "], " - ": [" + "], " * ": [" / "], " && ": [" || "], " || ": [" && "]}


def sites(text):
    """yield (line_no, start, end, replacement, operator name)"""
    lines = text.split("\n")
    in_test = False
    for ln, line in enumerate(lines):
        s = line.strip()
        if s.startswith("#[cfg(test)]"):
            in_test = True
        if in_test:
            continue
        if not s or s.startswith("//") or s.startswith("*") or s.startswith("/*") or s.startswith("#[") or s.startswith("#![") or s.startswith("use ") or s.startswith("pub use ") \
                or s.startswith("assert") or s.startswith("debug_assert") or "cfg(" in s:
            continue
        code = line.split("//")[0]
        # blank out string literals so that nothing inside them is mutated
        masked = re.sub(r'"(?:[^"\\]|\\.)*"', lambda m: '"' + " " * (len(m.group(0)) - 2) + '"', code)
        for table, name in ((REL, "rel"), (ARI, "ari")):
            for op, reps in table.items():
                for m in re.finditer(re.escape(op), masked):
                    for r in reps:
                        yield ln, m.start(), m.end(), r, f"{name}:{op.strip()}->{r.strip()}"
        for m in re.finditer(r"(?<![\w.])(0x[0-9a-fA-F_]+|\d[\d_]*\.\d+(?:e-?\d+)?|\d[\d_]*)(?:_?(?:u|i)(?:8|16|32|64|128|size)|_?f(?:32|64))?(?![\w]|\.\d)", masked):
            tok = m.group(1)
            a, b = m.start(1), m.end(1)
            before = masked[:a].rstrip()
            if before.endswith(";") or before.endswith("[u8") or re.search(r"\[\w+;\s*$", masked[:a]):   # array length in a type
                continue
            try:
                if tok.startswith("0x"):
                    v = int(tok.replace("_", ""), 16)
                    nv = (v ^ (v & -v)) if bin(v).count("1") > 1 else (v << 1 if v else 1)
                    yield ln, a, b, hex(nv), "hex"
                elif "." in tok:
                    f = float(tok.replace("_", ""))
                    nf = f + 1.0 if abs(f) >= 1.0 else (f * 2.0 if f else 0.5)
                    yield ln, a, b, repr(nf), "float"
                else:
                    v = int(tok.replace("_", ""))
                    yield ln, a, b, str(v + 1), "int+1"
                    if v > 1:
                        yield ln, a, b, str(v - 1), "int-1"
            except ValueError:
                continue


def run(cmd, cwd, env=None, timeout=900):
    try:
        p = subprocess.run(cmd, cwd=cwd, env=env, stdout=subprocess.PIPE, stderr=subprocess.STDOUT, text=True, timeout=timeout)
        return p.returncode, p.stdout
    except subprocess.TimeoutExpired as e:
        return 124, (e.stdout or "") if isinstance(e.stdout, str) else ""


def main():
    ap = argparse.ArgumentParser()
    ap.add_argument("--lane", type=int, required=True)
    ap.add_argument("--files", required=True)
    ap.add_argument("--per-file", type=int, default=10)
    ap.add_argument("--seed", type=int, default=1)
    ap.add_argument("--out", default=None)
    ap.add_argument("--tier", default="quick")
    ap.add_argument("--list", action="store_true", help="only print the number of sites per file")
    a = ap.parse_args()
    lane = f"/tmp/mut_lane_{a.lane}"
    out = a.out or f"/tmp/mut_results_{a.lane}.jsonl"
    head = subprocess.run(["git", "-C", "/repo", "rev-parse", "HEAD"], stdout=subprocess.PIPE, text=True).stdout.strip()
    if not os.path.isdir(lane):
        subprocess.run(["git", "-C", "/repo", "worktree", "add", "--detach", lane, head], check=True, stdout=subprocess.DEVNULL, stderr=subprocess.DEVNULL)
    subprocess.run(["git", "-C", lane, "checkout", "-q", "--detach", head], check=True)
    subprocess.run(["git", "-C", lane, "checkout", "-q", "--", "."], check=True)
    env = dict(os.environ, CARGO_NET_OFFLINE="true", CARGO_TARGET_DIR=os.path.join(lane, "target"))
    env.pop("RUSTFLAGS", None)
    cenv = dict(os.environ, VERIF_REPO_DIR=lane, VERIF_SCRATCH=f"/tmp/mut_scratch_{a.lane}")
    os.makedirs(cenv["VERIF_SCRATCH"], exist_ok=True)
    for rel in a.files.split(","):
        path = os.path.join(lane, rel)
        orig = open(path).read()
        all_sites = list(sites(orig))
        if a.list:
            print(rel, len(all_sites)); continue
        rng = random.Random(int(hashlib.sha256(f"{a.seed}:{rel}".encode()).hexdigest()[:8], 16))
        picked = rng.sample(all_sites, min(a.per_file, len(all_sites)))
        crate = "jet1090" if "crates/jet1090" in rel else ("decode1090" if "crates/decode1090" in rel else "rs1090")
        ids = checks_for(rel)
        for (ln, s, e, rep, opname) in picked:
            lines = orig.split("\n")
            old_line = lines[ln]
            lines[ln] = old_line[:s] + rep + old_line[e:]
            rec = {"file": rel, "line": ln + 1, "op": opname, "old": old_line.strip(), "new": lines[ln].strip()}
            t0 = time.time()
            try:
                open(path, "w").write("\n".join(lines))
                rc, o = run(["cargo", "test", "-p", crate, "--offline", "-q"], lane, env, timeout=900)
                if rc != 0:
                    rec["status"] = "no-compile" if ("error[" in o or "error:" in o and "test failed" not in o and "FAILED" not in o) else "suite-kills"
                else:
                    rec["status"] = "SURVIVED"; rec["ran"] = []
                    for cid in ids:
                        rc, o = run([os.path.join(VERIF, "bin", "check"), cid, "--tier", a.tier], VERIF, cenv, timeout=1500)
                        rec["ran"].append(f"{cid}:{rc}")
                        if rc == 1:
                            cls = re.findall(r"class=(\S+)", o)
                            rec.update(status="caught", by=cid, cls=cls[:3]); break
                        if rc != 0:
                            rec.update(status="machinery", by=cid, tail=o[-400:]); break
            finally:
                open(path, "w").write(orig)
            rec["secs"] = round(time.time() - t0, 1)
            with open(out, "a") as f:
                f.write(json.dumps(rec) + "\n")
            print(f"[lane {a.lane}] {rec['status']:12s} {rel}:{ln+1} {opname}  {rec.get('by','')} {rec['secs']}s", flush=True)


if __name__ == "__main__":
    main()

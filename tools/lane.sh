#!/bin/sh
# usage: tools/lane.sh <lane number> <seed dir> <property> [crate] [tier]
# One seed through one lane: confirm it in the lane's scratch worktree (verify_seed.sh), then run the property's check
# against the lane's own copy of the repository (try_seed.sh with SEED_REPO). Lanes have their own worktrees, build
# directories and scratch directories, so several can run at once and /repo is never touched.
n="$1"; sd="$2"; prop="$3"; crate="${4:-rs1090}"; tier="${5:-quick}"
export WT_VERIFY=/tmp/wt_verify_$n SEED_REPO=/tmp/repo_seeds_$n
head=$(git -C /repo rev-parse HEAD)
[ -d "$WT_VERIFY" ] || git -C /repo worktree add --detach "$WT_VERIFY" "$head" >/dev/null 2>&1
[ -d "$SEED_REPO" ] || git -C /repo worktree add --detach "$SEED_REPO" "$head" >/dev/null 2>&1
# warm build directories: the registry dependencies are the same as in /verif/target/{sweep,hooks}
h=$(python3 -c "import hashlib,sys; print(hashlib.sha256(sys.argv[1].encode()).hexdigest()[:10])" "$SEED_REPO")
for e in sweep hooks; do
  [ -d /verif/target/${e}_alt_$h ] || { [ -d /verif/target/$e ] && cp -r /verif/target/$e /verif/target/${e}_alt_$h; }
done
/verif/tools/verify_seed.sh "$sd" "$crate"
/verif/tools/try_seed.sh "$sd/patch.diff" "$tier" "$prop"

#!/usr/bin/env python3
"""C10, second anchor: the deduplication loop of the decode1090 binary (crates/decode1090/src/main.rs has its
own copy of the algorithm inside main(), so it can only be driven as a black box).

Every arrival history up to a length over (frame, receiver, timestamp) is written into ONE input file:
history k uses its own frames (addresses 4k..4k+3) and its own time base (k * 100 s), so histories cannot
interact; the real binary is run once per window length and its output lines are attributed back to the
histories by address. Because decode1090 flushes all open groups at end of input, every decodable reception
must come out exactly once.

usage: dedup1090.py <decode1090 binary> <quick|thorough> <scratch dir>   -> JSON report on stdout
"""
import itertools, json, os, subprocess, sys, time

STAMPS_Q = [0, 250, 400, 450, 1000]
STAMPS_T = [0, 125, 250, 399, 400, 401, 450, 1000, 10000]


def frame(k, f):
    if f == 3:
        # DF1 does not exist: the frame cannot be decoded and must never be emitted
        a = 4 * k + 3
        return bytes([0x08, (a >> 16) & 255, (a >> 8) & 255, a & 255, 0x11, 0x22, 0x33])
    a = 4 * k + f
    return bytes([0x5D, (a >> 16) & 255, (a >> 8) & 255, a & 255, 0, 0, 0])


def histories(tier):
    stamps = STAMPS_T if tier == "thorough" else STAMPS_Q
    syms = [(f, r, ms) for ms in stamps for f in (0, 1, 3) for r in (0, 1)]
    maxlen = 3
    for n in range(1, maxlen + 1):
        for h in itertools.product(syms, repeat=n):
            yield list(h)
    # deeper on one frame + undecodable, one receiver
    syms2 = [(f, 0, ms) for ms in stamps[:5] for f in (0, 3)]
    for n in range(4, 6 if tier == "thorough" else 5):
        for h in itertools.product(syms2, repeat=n):
            yield list(h)


def main():
    exe, tier, scratch = sys.argv[1], sys.argv[2], sys.argv[3]
    os.makedirs(scratch, exist_ok=True)
    t0 = time.time()
    replay = None
    if len(sys.argv) > 4:
        # replay of one witness: {"window_ms": w, "history": [[frame, receiver, ms], ...]}
        replay = json.load(open(sys.argv[4]))
        replay = replay.get("witness", replay)
        hs = [[tuple(x) for x in replay["history"]]]
    else:
        hs = list(histories(tier))
    rep = {"histories": len(hs), "windows": [], "violations": [], "executions": 0, "records": 0, "outcomes": {}}
    viol = {}

    def violation(cls, what, k, w):
        v = viol.setdefault(cls, {"class": "decode1090:" + cls, "what": what, "count": 0, "witness": {"kind": "decode1090", "window_ms": w, "format": fmt, "history": [list(x) for x in hs[k]]}})
        v["count"] += 1

    # input formats: "metadata" = one metadata entry per line (reception id in nanoseconds); "legacy" = the older
    # recording format, a top-level rssi and no metadata (reception id in the rssi value, exact in f32)
    if replay:
        runs = [(replay["window_ms"], replay.get("format", "metadata"))]
    else:
        ws = [0, 250, 400] if tier == "quick" else [0, 250, 400, 450]
        runs = [(w, "metadata") for w in ws] + [(w, "legacy") for w in ([0, 400] if tier == "quick" else ws)]
    for w, fmt in runs:
        path = os.path.join(scratch, f"in_{w}_{fmt}.jsonl")
        with open(path, "w") as f:
            for k, h in enumerate(hs):
                base = 1_700_000_000 + 100 * k
                # lines that are not receptions (a blank line, a line cut short, a line of another kind) must not cost
                # the receptions that follow them
                if not replay and k % 997 == 500:
                    f.write("\n")
                if not replay and k % 1499 == 700:
                    f.write('{"timestamp": 17\n')
                if not replay and k % 2003 == 900:
                    f.write('{"comment": "receiver restarted"}\n')
                for i, (fr, rx, ms) in enumerate(h):
                    t = base + ms / 1000.0
                    if fmt == "legacy":
                        f.write(json.dumps({"timestamp": t, "rssi": -float(k * 16 + i + 1), "frame": frame(k, fr).hex()}) + "\n")
                    else:
                        f.write(json.dumps({"timestamp": t, "frame": frame(k, fr).hex(), "metadata": [{"system_timestamp": t, "nanoseconds": k * 16 + i, "serial": rx + 1}]}) + "\n")
        p = subprocess.run([exe, "--input", path, "--deduplication", str(w)], stdout=subprocess.PIPE, stderr=subprocess.PIPE, text=True, timeout=3000)
        if p.returncode != 0:
            rep["violations"].append({"class": "decode1090:crash", "what": f"decode1090 exited with {p.returncode}: {p.stderr[-300:]}", "count": 1, "witness": {"kind": "decode1090", "window_ms": w, "history": []}})
            continue
        per = {}
        order = []
        for line in p.stdout.splitlines():
            try:
                j = json.loads(line)
            except Exception:
                rep["violations"].append({"class": "decode1090:bad-output", "what": line[:200], "count": 1, "witness": {"kind": "decode1090", "window_ms": w, "history": []}})
                continue
            fb = bytes.fromhex(j["frame"])
            a = (fb[1] << 16) | (fb[2] << 8) | fb[3]
            k = a // 4
            if fmt == "legacy":
                ids = [int(round(-m["rssi"])) - 1 if m.get("rssi") is not None else None for m in j.get("metadata", [])]
            else:
                ids = [m.get("nanoseconds") for m in j.get("metadata", [])]
            per.setdefault(k, []).append((fb, j["timestamp"], ids))
            order.append(k)
        if order != sorted(order):
            rep["violations"].append({"class": "decode1090:records-out-of-order", "what": "records of a later history left before records of an earlier one", "count": 1, "witness": {"kind": "decode1090", "window_ms": w, "history": []}})
        rep["records"] += len(order)
        for k, h in enumerate(hs):
            recs = per.get(k, [])
            rep["outcomes"][str(len(recs))] = rep["outcomes"].get(str(len(recs)), 0) + 1
            base = 1_700_000_000 + 100 * k
            seen = {}
            mono = all(h[i][2] <= h[i + 1][2] for i in range(len(h) - 1))
            last_first = None
            by_frame = {}
            for fb, ts, ids in recs:
                idx = []
                for x in ids:
                    if x is None or x // 16 != k or x % 16 >= len(h):
                        violation("reception-invented", f"record carries reception id {x}", k, w)
                        continue
                    idx.append(x % 16)
                    seen[x % 16] = seen.get(x % 16, 0) + 1
                if not idx:
                    violation("record-without-reception", "a record carries no reception", k, w)
                    continue
                if any(frame(k, h[i][0]) != fb for i in idx):
                    violation("reception-under-wrong-frame", "a reception is attached to a record of another frame", k, w)
                if idx != sorted(idx):
                    violation("receptions-out-of-arrival-order", f"receptions {idx} are not in arrival order", k, w)
                first_ms = h[idx[0]][2]
                # a reception cannot join a group whose window the stream itself has already shown to be closed: if some
                # arrival (of any frame, the first member included) at or after first arrival + window was read before
                # it, the record had to leave then
                for r_ in idx[1:]:
                    closer = next((x for x in range(idx[0], r_) if h[x][2] >= first_ms + w), None)
                    if closer is not None:
                        violation("joined-after-window-closed", f"reception {r_} ({h[r_][2]} ms) is in the record first seen at {first_ms} ms although arrival {closer} ({h[closer][2]} ms) had already closed its window of {w} ms", k, w)
                        break
                if abs((ts - base) * 1000 - first_ms) > 0.5:
                    violation("timestamp-not-first-arrival", f"record timestamp {(ts - base) * 1000:.1f} ms, first arrival at {first_ms} ms", k, w)
                if h[idx[0]][0] == 3:
                    violation("undecodable-emitted", "a record was emitted for an undecodable frame", k, w)
                if mono:
                    if last_first is not None and first_ms < last_first:
                        violation("records-out-of-order", f"a record first seen at {first_ms} ms left after one first seen at {last_first} ms", k, w)
                    last_first = first_ms
                    if fb in by_frame and abs(first_ms - by_frame[fb]) < w:
                        violation("same-frame-twice-in-window", f"two records of one frame first seen at {by_frame[fb]} and {first_ms} ms, window {w} ms", k, w)
                    by_frame[fb] = first_ms
            for i, (fr, rx, ms) in enumerate(h):
                c = seen.get(i, 0)
                if c > 1:
                    violation("reception-duplicated", f"reception {i} appears in {c} records", k, w)
                if c == 0 and fr != 3:
                    violation("reception-lost", f"reception {i} ({ms} ms) is in no record although the input ended (decode1090 flushes all groups)", k, w)
            rep["executions"] += 1
        rep["windows"].append(f"{w}:{fmt}")
    rep["violations"].extend(viol.values())
    rep["wall_s"] = round(time.time() - t0, 2)
    print(json.dumps(rep))


if __name__ == "__main__":
    main()

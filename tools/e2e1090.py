#!/usr/bin/env python3
"""E3: end-to-end runs of the real jet1090 process (black box) over the scenario catalogue of `sweep E2E`.

usage: e2e1090.py <jet1090 exe> <catalogue.json> <property id> <tier> <scratch dir> [<replay witness.json>]
prints one JSON object: {"executions", "scenarios", "lines", "violations": [...], "outcomes": {...}, "wall_s", "warnings"}

What is driven: the unmodified `main()` of jet1090 - UDP Beast receivers (one per sensor), the deduplication task, the
decoder loop (per-sensor reference lookup, `decode_position` on the shared aircraft map, `update_snapshot`,
`Filters::is_in`, `serde_json::to_string`, the output file, `store_history`) and the REST functions of web.rs. These
are integration sites the in-process engines cannot call. Each scenario is one process: frames go in as UDP
datagrams on the loopback interface, records come out of `--output` and of the REST API.

Every expectation is in the catalogue (computed from the bits the frames were built from); this tool only matches
records to receptions by the `frame` member and evaluates the property's clause.  Time is real here, so the
scenarios are short and the explored set is the catalogue, nothing more: it binds the integration sites to the
exhaustive in-process explorations, it does not replace them.
"""
import json, math, os, shutil, signal, socket, sqlite3, subprocess, sys, threading, time, urllib.request, zipfile
from concurrent.futures import ThreadPoolExecutor

GROUPS_D1090 = {"C06": ["positions", "moving"], "C07": ["positions", "kinds"]}
GROUPS = {"C06": ["positions", "positions-slow"], "C07": ["positions", "kinds"], "C10": ["dedup"], "C11": ["kinds"], "C12": ["positions", "kinds", "expire"]}


def haversine_m(lat1, lon1, lat2, lon2):
    r = 6371008.8
    p1, p2 = math.radians(lat1), math.radians(lat2)
    dp, dl = p2 - p1, math.radians(lon2 - lon1)
    a = math.sin(dp / 2) ** 2 + math.cos(p1) * math.cos(p2) * math.sin(dl / 2) ** 2
    return 2 * r * math.asin(min(1.0, math.sqrt(a)))


def beast(hexs, k=1):
    b = bytes.fromhex(hexs)
    t = {2: 0x31, 7: 0x32, 14: 0x33}[len(b)]
    body = k.to_bytes(6, "big") + b"\x50" + b
    return b"\x1a" + bytes([t]) + body.replace(b"\x1a", b"\x1a\x1a")


def free_ports(n, kind):
    socks, ports = [], []
    for _ in range(n):
        s = socket.socket(socket.AF_INET, kind)
        s.bind(("127.0.0.1", 0))
        socks.append(s); ports.append(s.getsockname()[1])
    for s in socks:
        s.close()
    return ports


def udp_bound(port):
    want = f":{port:04X}"
    try:
        for line in open("/proc/net/udp").read().splitlines()[1:]:
            if line.split()[1].endswith(want):
                return True
    except OSError:
        return True
    return False


def strict_loads(text, problems):
    def pairs(p):
        keys = [k for k, _ in p]
        for k in set(keys):
            if keys.count(k) > 1:
                problems.append(f"duplicate key {k!r}")
        return dict(p)

    def const(c):
        problems.append(f"non-finite number {c}")
        return None
    return json.loads(text, object_pairs_hook=pairs, parse_constant=const)


def make_cache(scratch):
    d = os.path.join(scratch, "cache", "jet1090")
    os.makedirs(d, exist_ok=True)
    db = os.path.join(d, "src.sqb")
    c = sqlite3.connect(db)
    c.execute("CREATE TABLE Aircraft (ModeS TEXT, Registration TEXT, ICAOTypeCode TEXT)")
    c.execute("INSERT INTO Aircraft VALUES ('ABCDEF','F-TEST','A320')")
    c.commit(); c.close()
    with zipfile.ZipFile(os.path.join(d, "basestation.zip"), "w") as z:
        z.write(db, "basestation.sqb")
    os.unlink(db)


def rest(port, path, timeout=2.0):
    with urllib.request.urlopen(f"http://127.0.0.1:{port}{path}", timeout=timeout) as r:
        return json.loads(r.read())


class Run:
    pass


def run_scenario(exe, cat, sc, scratch, idx):
    """one process; returns Run with .lines (raw text lines), .all (REST /all), .tracks {icao24: [...]}, .error"""
    r = Run(); r.name = sc["name"]; r.lines = []; r.all = None; r.tracks = {}; r.error = None; r.sc = sc
    d = os.path.join(scratch, f"run{idx}")
    os.makedirs(os.path.join(d, "config"), exist_ok=True)
    out = os.path.join(d, "out.jsonl")
    opt = sc["options"]
    for attempt in range(3):
        uports = free_ports(len(sc["sensors"]), socket.SOCK_DGRAM)
        (wport,) = free_ports(1, socket.SOCK_STREAM)
        env = {"PATH": os.environ.get("PATH", ""), "HOME": d, "XDG_CACHE_HOME": os.path.join(scratch, "cache"),
               "XDG_CONFIG_HOME": os.path.join(d, "config"), "RUST_BACKTRACE": "0"}
        srcs = [f"udp://127.0.0.1:{p}@{s['lat']},{s['lon']}" for p, s in zip(uports, sc["sensors"])]
        if opt["via"] == "config":
            cfg = ["verbose = false", "interactive = false", "prevent_sleep = false", "update_position = false",
                   f"deduplication = {opt['dedup_ms']}", f"serve_port = {wport}", f'output = "{out}"']
            if opt["df_filter"] is not None:
                cfg.append("df_filter = [" + ", ".join(str(x) for x in opt["df_filter"]) + "]")
            if opt["aircraft_filter"] is not None:
                cfg.append("aircraft_filter = [" + ", ".join(f'"{x}"' for x in opt["aircraft_filter"]) + "]")
            for p, s in zip(uports, sc["sensors"]):
                cfg += ["", "[[sources]]", f'udp = "127.0.0.1:{p}"', f"latitude = {s['lat']}", f"longitude = {s['lon']}"]
            cp = os.path.join(d, "cfg.toml")
            open(cp, "w").write("\n".join(cfg) + "\n")
            env["JET1090_CONFIG"] = cp
            cmd = [exe]
        else:
            cmd = [exe, "--output", out, "--deduplication", str(opt["dedup_ms"]), "--serve-port", str(wport)]
            if opt.get("history_expire") is not None:
                cmd += ["--history-expire", str(opt["history_expire"])]
            for x in opt["df_filter"] or []:
                cmd += ["--df-filter", str(x)]
            for x in opt["aircraft_filter"] or []:
                cmd += ["--aircraft-filter", x]
            cmd += srcs
        if os.path.exists(out):
            os.unlink(out)
        errf = open(os.path.join(d, "stderr.txt"), "w")
        p = subprocess.Popen(cmd, env=env, cwd=d, stdout=subprocess.DEVNULL, stderr=errf, stdin=subprocess.DEVNULL)
        try:
            t_end = time.time() + 10
            ready = False
            while time.time() < t_end and p.poll() is None:
                if all(udp_bound(q) for q in uports):
                    try:
                        rest(wport, "/all", 0.5); ready = True; break
                    except Exception:
                        pass
                time.sleep(0.03)
            if not ready:
                r.error = f"process not ready (exit={p.poll()})"
                continue
            sock = socket.socket(socket.AF_INET, socket.SOCK_DGRAM)
            sent_k = [0]

            def heartbeat():
                k = sent_k[0]; sent_k[0] += 1
                sock.sendto(beast(cat["sentinels"][k % len(cat["sentinels"])], 1000 + k), ("127.0.0.1", uports[0]))
                return k

            def pause(dt):
                t1 = time.time() + dt
                while True:
                    left = t1 - time.time()
                    if left <= 0:
                        break
                    if dt >= 0.04:
                        heartbeat()
                    time.sleep(min(0.04 if dt < 0.5 else 0.25, left))
            r.t0 = time.time()
            heartbeat(); time.sleep(0.02)
            for n, e in enumerate(sc["events"]):
                pause(e["dt"])
                stamp = n + 1
                if "gnss" in e:
                    # Radarcape form: seconds of the UTC day << 30 | nanoseconds, from the receiver's own clock
                    sod = (r.t0 + e["gnss"]) % 86400.0
                    stamp = (int(sod) << 30) | int((sod % 1.0) * 1e9)
                sock.sendto(beast(e["hex"], stamp), ("127.0.0.1", uports[e["sensor"]]))
                time.sleep(0.0015)
            time.sleep(0.03)
            k_end = heartbeat()
            # keep the stream alive until the END marker (or a later heartbeat) has gone through the decoder loop
            t_end = time.time() + opt["dedup_ms"] / 1000.0 + 8
            done = False
            while time.time() < t_end and p.poll() is None:
                heartbeat()
                time.sleep(0.04)
                try:
                    cur = [x for x in rest(wport, "/all") if x.get("icao24") == cat["sentinel_icao24"]]
                except Exception:
                    continue
                if cur and cur[0].get("groundspeed") is not None and cur[0]["groundspeed"] + 0.5 >= k_end + 1:
                    done = True; break
            r.t1 = time.time()
            if not done:
                r.error = f"END marker not seen (exit={p.poll()})"
                continue
            time.sleep(0.05)
            if opt.get("rest"):
                r.all = rest(wport, "/all")
                for ic in sorted({e["icao24"] for e in sc["events"]}):
                    try:
                        r.tracks[ic] = rest(wport, f"/track?icao24={ic}")
                    except Exception as ex:
                        r.tracks[ic] = f"error: {ex}"
            r.lines = open(out).read().split("\n") if os.path.exists(out) else []
            if r.lines and r.lines[-1] == "":
                r.lines.pop()
            r.error = None
            return r
        except Exception as ex:     # a socket or HTTP error while driving the process: this attempt does not count
            r.error = f"driving the process failed: {type(ex).__name__}: {ex}"
            continue
        finally:
            if p.poll() is None:
                p.send_signal(signal.SIGKILL)
            p.wait()
            errf.close()
    return r


def decode1090_scenarios(scs):
    """the same histories for decode1090 (one reference per invocation: the receptions of each sensor are a run of their
    own; explicit time stamps, so silences cost nothing: the reports of every aircraft are 0.5 s apart, and a second
    variant leaves 700 s between the third and the fourth report of each aircraft)"""
    out = []
    for sc in scs:
        if sc["name"].startswith("gnss-clock") or sc["group"] not in ("positions", "kinds", "moving") or sc["options"]["df_filter"] or sc["options"]["aircraft_filter"] or sc["options"]["via"] != "cli":
            continue
        for si, sensor in enumerate(sc["sensors"]):
            ev = [e for e in sc["events"] if e["sensor"] == si]
            if not ev:
                continue
            for variant in (["steady", "silence"] if sc["group"] == "positions" and sc["options"]["dedup_ms"] == 0 else ["steady"]):
                d = dict(sc)
                d["events"] = ev
                d["sensor_index"] = si
                d["variant"] = variant
                d["name"] = f"{sc['name']}@sensor{si}:{variant}"
                d["solo"] = sc["name"].startswith("solo:")
                out.append(d)
    return out


def run_decode1090(exe, sc, scratch, idx):
    r = Run(); r.name = sc["name"]; r.lines = []; r.all = None; r.tracks = {}; r.error = None; r.sc = sc
    d = os.path.join(scratch, f"d1090_{idx}")
    os.makedirs(d, exist_ok=True)
    inp, out = os.path.join(d, "in.jsonl"), os.path.join(d, "out.jsonl")
    t = 1.7e9
    per_ac = {}
    with open(inp, "w") as f:
        for n, e in enumerate(sc["events"]):
            per_ac[e["ac"]] = per_ac.get(e["ac"], 0) + 1
            t += 0.5
            if "t" in e:
                t = 1.7e9 + e["t"]
            if sc["variant"] == "silence" and per_ac[e["ac"]] == 5 and e["ac"] == sc["events"][0]["ac"]:
                t += 700.0
            f.write(json.dumps({"timestamp": t, "frame": e["hex"], "metadata": [{"system_timestamp": t, "serial": sc["sensor_index"] + 1}]}) + "\n")
    ref = sc["sensors"][sc["sensor_index"]]
    cmd = [exe, "--input", inp, "--output", out, "--deduplication", "0", f"--reference={ref['lat']},{ref['lon']}"]
    r.t0 = r.t1 = t
    # (--output appends: for the message kinds the file is written by two runs in a row, as a user who decodes two
    # captures into one file does)
    for _ in range(2 if sc["group"] == "kinds" else 1):
        try:
            p = subprocess.run(cmd, cwd=d, stdout=subprocess.DEVNULL, stderr=subprocess.PIPE, text=True, timeout=60,
                               env={"PATH": os.environ.get("PATH", ""), "HOME": d, "RUST_BACKTRACE": "0"})
        except subprocess.TimeoutExpired:
            r.error = "decode1090 did not finish within 60 s"
            return r
        if p.returncode != 0:
            r.error = f"decode1090 exited with {p.returncode}: {p.stderr[-200:]}"
            return r
    r.lines = open(out).read().split("\n") if os.path.exists(out) else []
    if r.lines and r.lines[-1] == "":
        r.lines.pop()
    return r


PY_DRIVER = r"""
import json, pickle, sys
sys.path.insert(0, sys.argv[1])
import _rust
job = json.load(open(sys.argv[2]))
out = _rust.decode_1090t_vec(job["msgs"], job["ts"], job["reference"])
recs = pickle.loads(bytes(out)) if not isinstance(out, list) else out
def clean(x):
    if isinstance(x, float) and x != x:
        return "NaN"
    if isinstance(x, dict):
        return {k: clean(v) for k, v in x.items()}
    if isinstance(x, (list, tuple)):
        return [clean(v) for v in x]
    return x
with open(sys.argv[3], "w") as f:
    for r in recs:
        f.write(json.dumps(clean(r)) + "\n")
"""


def python_scenarios(scs):
    """the same histories through the Python binding's decode_1090t_vec (batches of frames and of time stamps, one
    receiver reference): as one batch, split into two batches, and with a frame that fails its parity check in the
    middle of the batch (it must simply be absent from the result)"""
    out = []
    for sc in scs:
        if sc["name"].startswith("gnss-clock") or sc["group"] not in ("positions", "moving") or sc["options"]["dedup_ms"] != 0:
            continue
        ev = [e for e in sc["events"] if e["sensor"] == 0]
        if not ev:
            continue
        for variant in ("one-batch", "two-batches", "garbage-inside"):
            d = dict(sc)
            d["events"] = ev
            d["sensor_index"] = 0
            d["variant"] = variant
            d["name"] = f"{sc['name']}@python:{variant}"
            out.append(d)
    return out


def run_python(so, sc, scratch, idx):
    r = Run(); r.name = sc["name"]; r.lines = []; r.all = None; r.tracks = {}; r.error = None; r.sc = sc
    d = os.path.join(scratch, f"py_{idx}")
    os.makedirs(d, exist_ok=True)
    shutil.copyfile(so, os.path.join(d, "_rust.so"))
    msgs, ts = [], []
    t = 1.7e9
    for n, e in enumerate(sc["events"]):
        t = 1.7e9 + e["t"] if "t" in e else t + 0.5
        msgs.append(e["hex"]); ts.append(t)
        if sc["variant"] == "garbage-inside" and n == 2:
            bad = bytearray(bytes.fromhex(e["hex"])); bad[-1] ^= 0x01; bad[5] ^= 0x10
            msgs.append(bad.hex()); ts.append(t + 0.01)
    if sc["variant"] == "two-batches":
        h = len(msgs) // 2
        job_m, job_t = [msgs[:h], msgs[h:]], [ts[:h], ts[h:]]
    else:
        job_m, job_t = [msgs], [ts]
    ref = sc["sensors"][0]
    json.dump({"msgs": job_m, "ts": job_t, "reference": [ref["lat"], ref["lon"]]}, open(os.path.join(d, "job.json"), "w"))
    open(os.path.join(d, "drv.py"), "w").write(PY_DRIVER)
    r.t0 = r.t1 = t
    try:
        p = subprocess.run([sys.executable, os.path.join(d, "drv.py"), d, os.path.join(d, "job.json"), os.path.join(d, "out.jsonl")],
                           cwd=d, stdout=subprocess.DEVNULL, stderr=subprocess.PIPE, text=True, timeout=60)
    except subprocess.TimeoutExpired:
        r.error = "the Python binding did not return within 60 s"
        return r
    if p.returncode != 0:
        r.error = f"the Python driver exited with {p.returncode}: {p.stderr[-300:]}"
        return r
    r.lines = open(os.path.join(d, "out.jsonl")).read().split("\n")
    if r.lines and r.lines[-1] == "":
        r.lines.pop()
    return r


def judge(label, prefix, runs, scs, cat, pid):
    """evaluates the clauses of <pid> on the runs of one binary; returns a partial result"""
    viol = {}
    warnings = []
    outcomes = {}

    def violation(cls, what, witness):
        v = viol.setdefault(cls, {"class": prefix + cls, "what": f"[{label} process, end to end] " + what, "count": 0, "witness": dict(witness, kind="e2e", family=label)})
        v["count"] += 1

    def outcome(k, n=1):
        outcomes[k] = outcomes.get(k, 0) + n
    started = [r for r in runs if r.error is None]
    for r in runs:
        if r.error is not None:
            warnings.append(f"scenario {r.name}: {r.error}")
            outcome("scenario-not-run")
    if len(started) * 2 < len(runs) or not started:
        return {"machinery_error": f"{label}: {len(runs) - len(started)} of {len(runs)} scenarios could not be run", "warnings": warnings}
    sent_ic = cat["sentinel_icao24"]
    total_lines = 0
    beats = {}      # scenario name -> arrival times of the heartbeat frames
    parsed = {}     # scenario name -> list of (event index or None, record dict, raw)
    for r in started:
        sc = r.sc
        by_hex = {}
        for n, e in enumerate(sc["events"]):
            by_hex.setdefault(e["hex"], []).append(n)
        recs = []
        for raw in r.lines:
            total_lines += 1
            problems = []
            try:
                rec = strict_loads(raw, problems)
            except ValueError as ex:
                if pid == "C07":
                    violation("line-not-json", f"scenario {sc['name']}: output line is not one JSON value: {ex}: {raw[:200]}", {"scenarios": [sc["name"]], "line": raw[:400]})
                continue
            if not isinstance(rec, dict):
                if pid == "C07":
                    violation("line-not-object", f"scenario {sc['name']}: output line is not a JSON object: {raw[:200]}", {"scenarios": [sc["name"]], "line": raw[:400]})
                continue
            if rec.get("icao24") == sent_ic and rec.get("frame") not in by_hex:
                beats.setdefault(sc["name"], []).append(rec.get("timestamp"))
                continue
            fr = rec.get("frame")
            if pid == "C07":
                for pb in problems:
                    violation("record:" + pb.split(" ")[0], f"scenario {sc['name']}: {pb} in the record of frame {fr}", {"scenarios": [sc["name"]], "frame": fr})
            if fr not in by_hex:
                if pid in ("C07", "C10"):
                    violation("frame-not-sent", f"scenario {sc['name']}: a record carries frame {fr!r}, which was never sent", {"scenarios": [sc["name"]], "line": raw[:400]})
                continue
            e = sc["events"][by_hex[fr][0]]
            recs.append((by_hex[fr][0], rec, raw))
            outcome("record:" + e["kind"].split(":")[0])
            if pid == "C07":
                if str(rec.get("df")) != str(e["df"]):
                    violation(f"df-member:DF{e['df']}", f"scenario {sc['name']}: frame {fr} (DF{e['df']}) is written with df={rec.get('df')!r}", {"scenarios": [sc["name"]], "frame": fr})
                if rec.get("icao24") != e["icao24"]:
                    violation(f"icao24-member:DF{e['df']}", f"scenario {sc['name']}: frame {fr} from {e['icao24']} is written with icao24={rec.get('icao24')!r}", {"scenarios": [sc["name"]], "frame": fr})
        parsed[sc["name"]] = recs

    def positions(name):
        """aircraft -> list of (event index, (lat, lon) or None) in event order"""
        sc = next(s for s in scs if s["name"] == name)
        res = {}
        got = {}
        for n, rec, _ in parsed.get(name, []):
            la, lo = rec.get("latitude"), rec.get("longitude")
            got[sc["events"][n]["hex"]] = (la, lo) if la is not None and lo is not None else None
        for n, e in enumerate(sc["events"]):
            if e["pos"] is not None:
                res.setdefault(e["ac"], []).append((e["hex"], got.get(e["hex"], "no-record")))
        return res

    if pid == "C06":
        for r in started:
            sc = r.sc
            for n, rec, _ in parsed[sc["name"]]:
                e = sc["events"][n]
                if e["pos"] is None:
                    continue
                la, lo = rec.get("latitude"), rec.get("longitude")
                if la is None or lo is None:
                    outcome("report-without-position"); continue
                outcome("report-with-position")
                dist = haversine_m(la, lo, e["pos"][0], e["pos"][1])
                if not (dist <= 25.0):
                    violation(f"wrong-position:{e['kind']}", f"scenario {sc['name']}: the {e['kind']} report {e['hex']} of aircraft {e['ac']} at ({e['pos'][0]},{e['pos'][1]}) heard by sensor {e['sensor']} is given ({la},{lo}), {dist:.0f} m off",
                              {"scenarios": [sc["name"]], "frame": e["hex"]})
        import re as _re

        def plan_of(name):
            # "solo:M:late-first@sensor0:steady" / "mix:M+N:late-first@sensor0:steady" -> ":late-first@sensor0:steady"
            rest = name.split(":", 1)[1]
            m = _re.match(r"[A-Za-z+()]+", rest)
            return rest[m.end():] if m else rest
        solo = {}
        for r in started:
            if r.name.startswith("solo:"):
                for ac, seq in positions(r.name).items():
                    solo[(ac, plan_of(r.name))] = (r.name, seq)

        def same(a, b):
            # a record that did not come out of one of the two runs (a datagram the kernel dropped on a busy machine)
            # decides nothing about interference: only records present in both runs are compared
            if isinstance(a, str) or isinstance(b, str):
                return True
            if a is None or b is None:
                return a == b
            return abs(a[0] - b[0]) < 1e-7 and abs(a[1] - b[1]) < 1e-7
        for r in started:
            if not r.name.startswith("mix:"):
                continue
            for ac, seq in positions(r.name).items():
                ref = solo.get((ac, plan_of(r.name)))
                if ref is None or len(ref[1]) != len(seq):
                    continue
                diff = next(((a, b) for a, b in zip(ref[1], seq) if a[0] != b[0] or not same(a[1], b[1])), None)
                if diff is not None:
                    violation("interference", f"scenario {r.name}: what is decoded for aircraft {ac} differs from its solo run (report {diff[0][0]}: alone {diff[0][1]}, interleaved {diff[1][1]})",
                              {"scenarios": [r.name, ref[0]]})
    if pid == "C11":
        base = next((r for r in started if r.name == "kinds:0:cli"), None)
        if base is None:
            warnings.append("the unfiltered scenario could not be run: filter scenarios are not judged")
        else:
            decoded = {rec["frame"] for _, rec, _ in parsed[base.name]}
            sc0 = base.sc
            und = [e for e in sc0["events"] if not e["decodable"] and e["hex"] in decoded]
            for e in und:
                violation("undecoded-kept", f"a reception that does not decode ({e['kind']}, frame {e['hex']}) is written to the output", {"scenarios": [base.name], "frame": e["hex"]})
            n_dec = sum(1 for e in sc0["events"] if e["decodable"])
            if len(decoded) * 10 < n_dec * 9:
                warnings.append(f"only {len(decoded)} of {n_dec} catalogue frames are decoded by the unfiltered process")
            for r in started:
                if r.sc["group"] != "kinds":
                    continue
                o = r.sc["options"]
                got = {rec["frame"] for _, rec, _ in parsed[r.name]}
                for e in r.sc["events"]:
                    if e["hex"] not in decoded or not e["decodable"]:
                        continue
                    df_ok = not o["df_filter"] or int(e["df"]) in o["df_filter"]
                    ac_ok = not o["aircraft_filter"] or e["icao24"] in o["aircraft_filter"]
                    exp = df_ok and ac_ok
                    outcome("kept" if e["hex"] in got else "dropped")
                    if exp != (e["hex"] in got):
                        violation(f"DF{e['df']}:wrongly-{'kept' if e['hex'] in got else 'dropped'}:{o['via']}",
                                  f"scenario {r.name} (df_filter={o['df_filter']} aircraft_filter={o['aircraft_filter']} given by {o['via']}): the record of frame {e['hex']} shown as df={e['df']} icao24={e['icao24']} is {'kept' if e['hex'] in got else 'dropped'}",
                                  {"scenarios": [r.name], "frame": e["hex"]})
    if pid == "C12":
        for r in started:
            o = r.sc["options"]
            if o["df_filter"] or o["aircraft_filter"] or r.all is None:
                continue
            recs = parsed[r.name]
            per = {}
            for n, rec, _ in recs:
                per.setdefault(rec.get("icao24"), []).append((n, rec))
            entries = [x for x in r.all if x.get("icao24") != sent_ic]
            keys = [x.get("icao24") for x in entries]
            for k in set(keys):
                if keys.count(k) > 1:
                    violation("rest:duplicate-entry", f"scenario {r.name}: /all lists {k} {keys.count(k)} times", {"scenarios": [r.name]})
                if k not in per:
                    violation("rest:unexpected-entry", f"scenario {r.name}: /all has an entry {k!r} but no record shows that address", {"scenarios": [r.name]})
            for ic, lst in per.items():
                ent = next((x for x in entries if x.get("icao24") == ic), None)
                if ent is None:
                    violation("rest:missing-entry", f"scenario {r.name}: {len(lst)} record(s) show {ic} but /all has no entry for it", {"scenarios": [r.name]})
                    continue
                outcome("table-entry")
                if ent.get("count") != len(lst):
                    violation("rest:count", f"scenario {r.name}: entry {ic} has count={ent.get('count')} but {len(lst)} records of that aircraft were written", {"scenarios": [r.name]})
                lo_t, hi_t = int(r.t0) - 1, int(r.t1) + 1
                fs, ls = ent.get("firstseen"), ent.get("lastseen")
                if not (isinstance(fs, int) and isinstance(ls, int) and lo_t <= fs <= ls <= hi_t):
                    violation("rest:seen", f"scenario {r.name}: entry {ic} has firstseen={fs} lastseen={ls}, the run lasted from {lo_t} to {hi_t}", {"scenarios": [r.name]})
                own_cs = {r.sc["events"][n]["extra"].get("callsign") for n, _ in lst} - {None}
                if ent.get("callsign") is not None and ent["callsign"].strip() not in own_cs:
                    violation("rest:provenance:callsign", f"scenario {r.name}: entry {ic} holds call sign {ent['callsign']!r}; its own records carry {sorted(own_cs)}", {"scenarios": [r.name]})
                if own_cs and ent.get("callsign") is None:
                    outcome("entry-without-callsign")    # (not judged: the property speaks of what an entry holds, not of what it must hold)
                own_pos = {(rec.get("latitude"), rec.get("longitude")) for _, rec in lst if rec.get("latitude") is not None}
                if ent.get("latitude") is not None and (ent.get("latitude"), ent.get("longitude")) not in own_pos:
                    violation("rest:provenance:position", f"scenario {r.name}: entry {ic} holds position ({ent.get('latitude')},{ent.get('longitude')}), which none of its own records carries", {"scenarios": [r.name]})
                own_alt = {rec.get("altitude") for _, rec in lst} - {None}
                if ent.get("altitude") is not None and ent["altitude"] not in own_alt:
                    violation("rest:provenance:altitude", f"scenario {r.name}: entry {ic} holds altitude {ent['altitude']}; its own records carry {sorted(own_alt)[:8]}", {"scenarios": [r.name]})
                own_sq = {rec.get("squawk") for _, rec in lst} - {None}
                if ent.get("squawk") is not None and ent["squawk"] not in own_sq:
                    violation("rest:provenance:squawk", f"scenario {r.name}: entry {ic} holds squawk {ent['squawk']}; its own records carry {sorted(own_sq)}", {"scenarios": [r.name]})
                tr = r.tracks.get(ic)
                stored = [rec for _, rec in lst if str(rec.get("df")) in ("17", "18", "20", "21")]
                if stored and not isinstance(tr, list):
                    violation("rest:track:not-found", f"scenario {r.name}: {ic} is in the table and {len(stored)} of its records are kept in the history, but /track?icao24={ic} answers {str(tr)[:60]!r}", {"scenarios": [r.name]})
                if isinstance(tr, list):
                    # the history drops the frame bytes: records are matched by their time stamp
                    frames = [t.get("timestamp") for t in tr if isinstance(t, dict)]
                    own = [rec.get("timestamp") for _, rec in lst]
                    foreign = [t for t in tr if isinstance(t, dict) and t.get("icao24") not in (None, ic)]
                    if foreign:
                        violation("rest:track:foreign-record", f"scenario {r.name}: /track?icao24={ic} returns a record of {foreign[0].get('icao24')}", {"scenarios": [r.name]})
                    elif [t for t in frames if t not in own] or len(set(frames)) != len(frames):
                        # (the history keeps the extended squitters and Comm-B replies only: a subset is expected)
                        violation("rest:track:records", f"scenario {r.name}: /track?icao24={ic} returns records ({len(frames)}) that are not records of that aircraft, or returns one twice", {"scenarios": [r.name]})
    if pid == "C12":
        # the filters select what is written and kept as history, not what the table knows: with any filter
        # configuration the table holds what it holds without one
        base = next((r for r in started if r.name == "kinds:0:cli" and r.all is not None), None)

        def table_of(r):
            return {x.get("icao24"): {k: v for k, v in x.items() if k not in ("firstseen", "lastseen", "metadata")} for x in r.all if x.get("icao24") != sent_ic}
        if base is not None:
            want = table_of(base)
            for r in started:
                o = r.sc["options"]
                if r.sc["group"] != "kinds" or r.all is None or not (o["df_filter"] or o["aircraft_filter"]) or r.sc["events"] != base.sc["events"]:
                    continue
                got = table_of(r)
                outcome("table-under-filter")
                for ic in sorted(set(want) | set(got)):
                    if want.get(ic) != got.get(ic):
                        a, b = want.get(ic), got.get(ic)
                        fields = sorted(k for k in set(a or {}) | set(b or {}) if (a or {}).get(k) != (b or {}).get(k)) if a and b else ["entry"]
                        violation("rest:table-depends-on-filter", f"scenario {r.name} (df_filter={o['df_filter']} aircraft_filter={o['aircraft_filter']}): the table entry of {ic} differs from the one of the unfiltered run in {fields[:6]} (e.g. count {None if not b else b.get('count')} instead of {None if not a else a.get('count')})", {"scenarios": [r.name, base.name]})
                        break
    if pid == "C10":
        for r in started:
            sc = r.sc
            recs = parsed[r.name]
            per = {}
            for n, rec, _ in recs:
                per.setdefault(rec["frame"], []).append(rec)
            y = next(e for e in sc["events"] if e["ac"] == "y")
            yrec = per.get(y["hex"], [])
            if len(yrec) != 1 or len(yrec[0].get("metadata", [])) != 1:
                violation("single-reception", f"scenario {r.name}: the frame received once by one receiver appears in {len(yrec)} record(s) with {[len(x.get('metadata', [])) for x in yrec]} receptions", {"scenarios": [r.name]})
                continue
            s0 = yrec[0]["metadata"][0].get("serial")
            n_rx = {}
            for e in sc["events"]:
                n_rx[e["hex"]] = n_rx.get(e["hex"], 0) + 1
            for hx, n in n_rx.items():
                got = per.get(hx, [])
                tot = sum(len(x.get("metadata", [])) for x in got)
                if tot != n:
                    violation("reception-count", f"scenario {r.name}: frame {hx} was received {n} time(s), the records carry {tot} reception(s)", {"scenarios": [r.name]})
            x1 = next(e for e in sc["events"] if e["ac"] == "x1")
            got = per.get(x1["hex"], [])
            shape = sorted(len(x.get("metadata", [])) for x in got)
            outcome("x1:" + "+".join(map(str, shape)))
            # the expectation is evaluated on the arrival times the process itself recorded (time is real here: a
            # starved machine may stretch a gap), and only when they decide the matter
            arr = sorted(m.get("system_timestamp", 0.0) for g in got for m in g.get("metadata", []))
            w_s = sc["options"]["dedup_ms"] / 1000.0
            want = None
            if len(arr) == 2:
                gap = arr[1] - arr[0]
                closers = [t for t in beats.get(r.name, []) if isinstance(t, float) and arr[0] + w_s + 0.002 <= t < arr[1] - 0.002]
                if gap < 0.8 * w_s:
                    want = [2]
                elif gap > w_s + 0.005 and closers:
                    want = [1, 1]
            if want is None:
                outcome("x1:not-judged (arrival times do not decide)")
            elif shape != want:
                violation("window-not-honoured", f"scenario {r.name} (window {sc['options']['dedup_ms']} ms): the frame heard by both receivers gives records with {shape} receptions, expected {want}", {"scenarios": [r.name]})
            for g in got:
                md = g.get("metadata", [])
                if md and abs(g.get("timestamp", 0) - md[0].get("system_timestamp", -1)) > 1e-6:
                    violation("timestamp-not-first-arrival", f"scenario {r.name}: record of {x1['hex']} has timestamp {g.get('timestamp')} but its first reception arrived at {md[0].get('system_timestamp')}", {"scenarios": [r.name]})
                if len(md) == 2:
                    if md[0].get("serial") == md[1].get("serial") and len({e["sensor"] for e in sc["events"] if e["ac"] == "x1"}) == 2:
                        violation("reception-receiver", f"scenario {r.name}: the two receptions of {x1['hex']} came from two receivers but are both attributed to {md[0].get('serial')}", {"scenarios": [r.name]})
                    if md[0].get("system_timestamp", 0) > md[1].get("system_timestamp", 0):
                        violation("arrival-order", f"scenario {r.name}: the receptions of {x1['hex']} are not listed in arrival order: {[m.get('system_timestamp') for m in md]}", {"scenarios": [r.name]})
    if pid == "C07":
        # the fields of a record are a function of its frame: whatever was received before, the same reception is
        # written with the same members (time stamp, receiver data and the position attached by the trajectory
        # decoder aside)
        seen = {}
        for r in started:
            for n, rec, _ in parsed[r.name]:
                core = {k: v for k, v in rec.items() if k not in ("timestamp", "metadata", "latitude", "longitude")}
                key = rec.get("frame")
                if key in seen and seen[key][1] != core:
                    diff = sorted(set(core) ^ set(seen[key][1])) or sorted(k for k in core if core[k] != seen[key][1].get(k))
                    violation(f"record-depends-on-history:DF{core.get('df')}", f"frame {key} is written with different members in scenario {seen[key][0]} and in scenario {r.name} (differing: {diff[:6]})",
                              {"scenarios": [seen[key][0], r.name], "frame": key})
                elif key not in seen:
                    seen[key] = (r.name, core)
    return {"executions": sum(len(r.sc["events"]) for r in started), "scenarios": len(started), "lines": total_lines,
            "violations": list(viol.values()), "outcomes": outcomes, "warnings": warnings}


def main():
    exe, catp, pid, tier, scratch = sys.argv[1:6]
    replay = sys.argv[6] if len(sys.argv) > 6 else None
    t0 = time.time()
    cat = json.load(open(catp))
    shutil.rmtree(scratch, ignore_errors=True)
    os.makedirs(scratch)
    make_cache(scratch)
    groups = GROUPS[pid]
    scs = [s for s in cat["scenarios"] if s["group"] in groups]
    if replay:
        w = json.load(open(replay)); w = w.get("witness", w)
        # (the runs of decode1090 and of the Python binding are named <scenario>@<variant>)
        names = {n.split("@")[0] for n in w.get("scenarios", [])}
        scs = [s for s in scs if s["name"] in names or s["name"].startswith("solo:") or s["name"] == "kinds:0:cli"]
    with ThreadPoolExecutor(max_workers=12) as ex:
        runs = list(ex.map(lambda a: run_scenario(exe, cat, a[1], scratch, a[0]), enumerate(scs)))
    parts = [judge("jet1090", "e2e:", runs, scs, cat, pid)]
    d1090 = os.environ.get("E2E_DECODE1090")
    if d1090 and pid in ("C06", "C07"):
        dscs = decode1090_scenarios([s for s in cat["scenarios"] if s["group"] in GROUPS_D1090[pid] and (not replay or s in scs or s["name"].startswith("solo:"))])
        with ThreadPoolExecutor(max_workers=12) as ex:
            druns = list(ex.map(lambda a: run_decode1090(d1090, a[1], scratch, a[0]), enumerate(dscs)))
        parts.append(judge("decode1090", "decode1090:", druns, dscs, cat, pid))
    pylib = os.environ.get("E2E_PYLIB")
    if pylib and pid == "C06":
        pscs = python_scenarios([s for s in cat["scenarios"] if s["group"] in GROUPS_D1090[pid] and (not replay or s in scs or s["name"].startswith("solo:"))])
        with ThreadPoolExecutor(max_workers=12) as ex:
            pruns = list(ex.map(lambda a: run_python(pylib, a[1], scratch, a[0]), enumerate(pscs)))
        parts.append(judge("python binding", "python:", pruns, pscs, cat, pid))
    shutil.rmtree(scratch, ignore_errors=True)
    bad = [p for p in parts if "machinery_error" in p]
    if bad:
        print(json.dumps({"machinery_error": "; ".join(p["machinery_error"] for p in bad), "warnings": sum((p["warnings"] for p in parts), [])}))
        sys.exit(3)
    res = {"executions": sum(p["executions"] for p in parts), "scenarios": sum(p["scenarios"] for p in parts), "lines": sum(p["lines"] for p in parts),
           "violations": sum((p["violations"] for p in parts), []), "outcomes": {}, "warnings": sum((p["warnings"] for p in parts), []), "wall_s": round(time.time() - t0, 2)}
    for n, p in enumerate(parts):
        for k, v in p["outcomes"].items():
            res["outcomes"][("" if n == 0 else f"part{n}:") + k] = v
    print(json.dumps(res))


if __name__ == "__main__":
    main()

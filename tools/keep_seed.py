#!/usr/bin/env python3
"""usage: keep_seed.py <name> <agent seed dir> <property> <verdict line> <caught: ID:class,...|none> <needs text>
Copies a confirmed seeded change into /verif/seeded/<name>/ with a meta.json."""
import json, os, shutil, sys
name, src, prop, verdict, caught, needs = sys.argv[1:7]
dst = os.path.join("/verif/seeded", name)
os.makedirs(dst, exist_ok=True)
for f in os.listdir(src):
    if f in ("patch.diff", "demo.rs", "demo.diff", "README.md") or f.startswith("demo"):
        shutil.copy(os.path.join(src, f), os.path.join(dst, f))
meta = {
    "id": name,
    "breaks_property": prop,
    "needs_to_manifest": needs,
    "origin": "written by an independent sub-agent that was given only the property text and a scratch worktree (nothing from /verif)",
    "confirmed": {
        "how": "tools/verify_seed.sh in the scratch worktree /tmp/wt_verify: demonstration on HEAD, demonstration with the change, repository test suite with the change",
        "result": verdict,
    },
    "checks_run": "tools/try_seed.sh <patch> quick <ids> (git -C /repo apply, bin/check with VERIF_SCRATCH, git -C /repo checkout -- .)",
    "caught_by": [c for c in caught.split(",") if c and c != "none"],
}
json.dump(meta, open(os.path.join(dst, "meta.json"), "w"), indent=1)
print("kept", dst)

/* LD_PRELOAD shim: records the NAME of every environment variable the process asks for (getenv / secure_getenv).
 * The explorations vary the arguments of the subject; an environment variable the subject consults is an input
 * they do not own. bin/check lists the names and reports those that neither the runtime nor the harness explains.
 * Log file: $VERIF_GETENV_LOG (one name per line, appended with O_APPEND so that threads and children interleave
 * whole lines). Build: cc -shared -fPIC -O1 -o envshim.so envshim.c -ldl */
#define _GNU_SOURCE
#include <dlfcn.h>
#include <fcntl.h>
#include <string.h>
#include <unistd.h>

static char *(*real_getenv)(const char *) = 0;
static char *(*real_secure_getenv)(const char *) = 0;
static int log_fd = -2;

static void note(const char *name) {
    if (!real_getenv) real_getenv = (char *(*)(const char *))dlsym(RTLD_NEXT, "getenv");
    if (log_fd == -2) {
        const char *p = real_getenv ? real_getenv("VERIF_GETENV_LOG") : 0;
        log_fd = p ? open(p, O_WRONLY | O_APPEND | O_CREAT | O_CLOEXEC, 0644) : -1;
    }
    if (log_fd >= 0 && name) {
        char buf[256];
        size_t n = strlen(name);
        if (n > 254) n = 254;
        memcpy(buf, name, n);
        buf[n] = '\n';
        (void)!write(log_fd, buf, n + 1);
    }
}

char *getenv(const char *name) {
    note(name);
    return real_getenv ? real_getenv(name) : 0;
}

char *secure_getenv(const char *name) {
    note(name);
    if (!real_secure_getenv) real_secure_getenv = (char *(*)(const char *))dlsym(RTLD_NEXT, "secure_getenv");
    return real_secure_getenv ? real_secure_getenv(name) : 0;
}

#!/bin/sh
# Re-runs the quick check of the broken property against every kept seed (regression of the detection matrix).
# Prints one line per seed; exit code = number of seeds that were not reported.
cd /verif || exit 99
# runs in its own scratch worktree so that /repo stays free
export SEED_REPO=/tmp/repo_seeds
[ -d "$SEED_REPO" ] || git -C /repo worktree add --detach "$SEED_REPO" HEAD >/dev/null 2>&1
git -C "$SEED_REPO" checkout -q --detach "$(git -C /repo rev-parse HEAD)" && git -C "$SEED_REPO" checkout -q -- .
missed=0
# optional argument: a glob over seed ids (default: all), e.g. tools/all_seeds.sh "C*-[mn]"
for d in seeded/${1:-*}/; do
  id=$(basename "$d")
  [ -f "$d/meta.json" ] || continue
  prop=$(python3 -c "import json,sys; print(json.load(open('$d/meta.json'))['breaks_property'])")
  tier=$(python3 -c "import json,sys; print(json.load(open('$d/meta.json')).get('tier','quick'))")
  out=$(tools/try_seed.sh "/verif/${d}patch.diff" "$tier" "$prop" 2>&1)
  rc=$?
  cls=$(echo "$out" | grep "class=" | head -1 | sed 's/ cases=.*//' | cut -c1-90)
  if [ $rc -eq 0 ]; then echo "CAUGHT $id $prop $cls"; else echo "MISSED $id $prop (rc=$rc)"; missed=$((missed+1)); fi
done
echo "missed=$missed"
exit $missed

#!/bin/sh
# usage: tools/verify_seed.sh <seed dir containing patch.diff and demo.rs|demo.diff> [crate]
# Confirms in the scratch worktree $WT_VERIFY (default /tmp/wt_verify) (never in /repo): demo passes on HEAD, the repository's test
# suite passes with the change, demo fails with the change. Prints a one-line verdict.
sd="$1"; crate="${2:-rs1090}"
# WT_VERIFY=<dir>: another scratch worktree (parallel lanes); its build output goes to <dir>_target
wt="${WT_VERIFY:-/tmp/wt_verify}"
export CARGO_NET_OFFLINE=true CARGO_TARGET_DIR="${wt}_target"
out="${wt}_demo_out.txt"
cd $wt || exit 9
git checkout -q -- . ; git clean -fdq -- crates python
name=seed_demo_$(basename "$sd" | tr -c 'A-Za-z0-9_\n' '_')
if [ -f "$sd/demo.sh" ]; then
  # a script that drives the real binary: exit 0 = the property holds on its input
  run_demo() { sh "$sd/demo.sh" "$wt" "$CARGO_TARGET_DIR" > "$out" 2>&1; }
elif [ -f "$sd/demo.diff" ]; then
  git apply "$sd/demo.diff" || { echo "VERDICT $sd: demo.diff does not apply"; exit 8; }
  # run the tests added by the demo patch: all tests of the crate whose name is new => run full crate tests, look for failures
  run_demo() { cargo test -p jet1090 --offline 2>&1 | tail -40 > "$out"; grep -q "test result: ok" "$out" && ! grep -q "FAILED\|panicked\|error\[" "$out"; }
  [ "$crate" = "rs1090" ] && run_demo() { cargo test -p rs1090 --offline 2>&1 | tail -60 > "$out"; ! grep -q "FAILED\|failed\|error\[" "$out"; }
else
  mkdir -p crates/$crate/tests; cp "$sd/demo.rs" crates/$crate/tests/$name.rs
  run_demo() { RUSTFLAGS="$DEMO_RUSTFLAGS" cargo test -p $crate --test $name --offline 2>&1 | tail -40 > "$out"; grep -q "test result: ok" "$out"; }
fi
if run_demo; then base=pass; else base=FAIL; fi
git apply "$sd/patch.diff" || { echo "VERDICT $sd: patch.diff does not apply"; exit 7; }
if run_demo; then with=PASS; else with=fail; fi
# the repository's own suite with the change (demo files removed)
if [ -f "$sd/demo.sh" ]; then :; elif [ -f "$sd/demo.diff" ]; then git apply -R "$sd/demo.diff"; else rm -f crates/$crate/tests/$name.rs; fi
suite=$(cargo test --workspace --no-fail-fast --offline 2>&1 | grep -E "^test result" | awk '{p+=$4; f+=$6} END {print p" passed "f" failed"}')
git checkout -q -- . ; git clean -fdq -- crates python
echo "VERDICT $sd: demo on HEAD=$base, demo with change=$with, suite with change: $suite"

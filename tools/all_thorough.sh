#!/bin/sh
# runs every thorough check in sequence (from the directory it is started in) and prints one line per check
for p in C01 C02 C03 C04 C05 C06 C07 C08 C09 C10 C11 C12 C13 C14 C15 C16 C17 C18; do
  s=$(date +%s)
  out=$(VERIF_SCRATCH=${VERIF_SCRATCH:-} bin/check $p --tier thorough 2>/dev/null | grep -E "VIOLATION|KNOWN|thorough:" | cut -c1-300)
  echo "$p $(( $(date +%s) - s ))s :: $out"
done

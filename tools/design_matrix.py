#!/usr/bin/env python3
"""Rewrites the detection matrix at the end of DESIGN.md (everything after the line starting with '| seed | property |')
from seeded/*/meta.json."""
import json, os
V = os.path.dirname(os.path.dirname(os.path.abspath(__file__)))
rows = []
for d in sorted(os.listdir(os.path.join(V, "seeded"))):
    m = os.path.join(V, "seeded", d, "meta.json")
    if os.path.exists(m):
        j = json.load(open(m))
        rows.append((d, j["breaks_property"], j["needs_to_manifest"].replace("|", "/"), "; ".join(j["caught_by"]).replace("|", "/")))
out = ["| seed | property | needs, to manifest | caught by (check tier:class) |", "|------|----------|--------------------|-------------------------------|"]
out += ["| %s | %s | %s | %s |" % r for r in rows]
p = os.path.join(V, "DESIGN.md")
s = open(p).read()
i = s.index("| seed | property |")
open(p, "w").write(s[:i] + "\n".join(out) + "\n")
print(len(rows), "seeds")

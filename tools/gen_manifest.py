#!/usr/bin/env python3
"""Regenerates /verif/MANIFEST.json from the table below (run after claiming a
new property). Properties not in CLAIMED are listed under not_applicable with
the reason given in PENDING."""
import json, os, subprocess

VERIF = os.path.dirname(os.path.dirname(os.path.abspath(__file__)))

E1 = "sweep"
E2 = "jetdrv"

CLAIMED = {
    "C01": dict(engine=E1, design="4/C01",
        technique="exhaustive component sweep of the real decoder: every field group of every DF / type code / register through all its values in windows on fixed backgrounds, plus the complete length law",
        text="Bounded exhaustive enumeration on the real Message::try_from / from_bytes / Display / Debug and on the 14 Comm-B register readers called directly: the length law (every length 0..=32 x 256 first bytes x 4 fills), all 2^16 leading byte pairs x 2 lengths x 3 fills, six AP formats x (2^14 header codes x 4 + 2^13 altitude/identity codes x 4), DF17 and DF18 (all control fields): all 256 first ME bytes x 8-bit (thorough 14/10-bit) windows at stride 4 over the other 48 bits x 2 backgrounds, each register x 12-bit (thorough 16-bit) windows at stride 4 over all 56 bits x 3 backgrounds (zero, status bits set, accepted exemplar), the joint domains of context-coupled fields (roll x track rate, ground speed x TAS, IAS x Mach, wind speed x direction, both BDS 4,0 selectors), whole DF20/21 frames per exemplar, and complete per-field sweeps (all velocity sign/magnitude pairs on a grid with extremes, all vertical rates, 4096 altitude codes x 13 type codes, all movement x track codes, all character codes, all BDS 6,1/6,2/6,5 codes). Oracle per input: no panic (site recorded), accepted => 7/14 bytes by the DF bit, the three renderings do not panic, a second decode is equal, from_bytes agrees and consumes exactly the frame (1.0e7 inputs quick); additionally a fixed list of 26k frames is decoded forwards, backwards and interleaved with unrelated frames and must render identically (no hidden state between calls).",
        note="Trusted: field readers interact only through the contexts swept jointly (stated as an assumption); the claim is every component's full domain on fixed backgrounds, not all 2^112 frames; hangs are bounded only by the wall-clock cap (reported as machinery failure)."),
    "C02": dict(engine=E1, design="4/C02",
        technique="exhaustive enumeration of the CRC state space on the real code against bit-serial polynomial division",
        text="Bounded exhaustive exploration of the real modes_checksum / Message::try_from: all 2^32 four-byte prefixes (every 24-bit CRC state with every next byte), all 2^24 trailers, every 16-bit window at every offset of long frames, every 1-bit, 2-bit and burst<=24 error pattern, base frames x all 2^24 syndromes (thorough), all 2^24 addresses per AP format. Each case is compared with an independent bit-serial division. This is the right level because the CRC is a finite-state loop: covering every (state, byte) pair decides it for all lengths.",
        note="Trusted: the bit-serial reference division (15 lines, self-checked against its own per-byte linear form); the loop-body induction argument; AP payloads limited to 3 backgrounds (overlay is linear)."),
    "C03": dict(engine=E1, design="4/C03",
        technique="complete enumeration of every code of every listed field through frames built by an independent bit-level encoder, read back from the decoder's JSON",
        text="For each field the property lists, every code is placed in a complete frame by a bit-level builder written from the Annex 10 / Doc 9871 / DO-260B tables (CRC by bit-serial division) and decoded by the real Message::try_from; the value read from the JSON must equal the encoded value within one quantisation step: addresses (DF11: all 2^24 in thorough, six 16-bit windows in quick; DF17/DF18 windows), 8 positions x all assigned character codes x 4 type codes x 8 categories and BDS 2,0 in DF20/21, all 8192 AC codes in DF4/DF20 and all 4096 ME codes x 13 type codes against the constructive Gillham reference, all 4096 squawks in DF5/DF21/BDS 6,1, ground velocity sign/magnitude pairs (all 2046^2 in thorough, a 73^2 grid x 4 sign combinations with every boundary in quick), all 1024 headings, 1023 airspeeds x IAS/TAS, 511 vertical rates x sign x source, 126 GNSS-baro differences x sign, 124 movement codes and 128 track codes x 4 type codes, BDS 6,2 (655 selected altitudes, 511 QNH, 512 headings), BDS 4,0 (451 altitudes x 2 selectors, 4096 QNH) and every code of every field of BDS 5,0 / 6,0 in DF20 and DF21 with a plausibility envelope (inside: must be reported and equal; outside: if reported, equal); DF20-as-BDS 0,5: all 4096 payload altitude codes x ~16 related header codes and 8 payload codes x all 8192 header codes.",
        note="Trusted: the reference builder (cross-checked: every frame it builds must be accepted, and the repository's sample frames decode to the documented values); sentinel codes and supersonic subtypes are outside the property's quantifier; altitudes <= 0 ft or > 65,535 ft may be reported unavailable; the plausibility envelope for BDS 5,0/6,0 is the harness's conservative choice."),
    "C04": dict(engine=E1, design="4/C04",
        technique="complete enumeration of all CPR code cells (integer-exact encoder) through the real decoder",
        text="Every point on Earth collapses to finitely many code cells; latitude and longitude factorise through NL. The check enumerates all 7.8 M latitude cells x both orders x 3 longitude backgrounds, all 456 M longitude cells of all 59 bands x both orders x representative latitude cells, every mixed-band cell and every same-parity relabelling, calls the real airborne_position on each and compares with an integer-exact DO-260B encoder (NL from the closed form at 50 digits). Complete over the code space, so the verdict is exact up to the stated factorisation (re-checked at run time).",
        note="Trusted: the integer encoder and NL thresholds (tools/nl_table.py re-derives them); factorisation assumption (latitude independent of longitude codes; longitude depends on latitude only through NL), both re-validated during the run; mean-sphere radius for the 10 m tolerance."),
    "C05": dict(engine=E1, design="4/C05",
        technique="complete enumeration of single-message CPR cells x a reference alphabet through the real decoders",
        text="Every single-message latitude cell (airborne/surface x even/odd) against references at the cell ends +- {0, ulp, 1/4, 1/2, 3/4, 0.95 of the range} and on every zone edge in range (exact, +-1, +-2 ulp); every longitude cell of every band against the same alphabet scaled by the largest admissible longitude offset; every 17-bit count against absolute adversarial references (poles, +-180, zone edges, 1e300, f64::MAX, subnormals). Real airborne_/surface_position_with_reference are executed for each.",
        note="Trusted: the interval (monotonicity) argument for references between the enumerated ones; references beyond 0.95 of the range and surface positions next to the poles (45 NM disc wider than half a zone) are outside the claim; quick covers a subset of bands."),
    "C13": dict(engine=E1, design="4/C13",
        technique="complete enumeration of every code of each finite domain against a constructive Gillham/Gray reference",
        text="Complete enumeration: all 2^13 AC codes through DF4/0/16/20 frames, all 2^12 ME altitude codes through DF17 frames, all 2^16 gray2alt arguments, all 2^13 identity codes (function and DF5/DF21 frames), decoded by the real readers and compared with a reference built constructively from Annex 10 (reflected Gray code for 500 ft, 5-cycle for 100 ft, bit-order table). Domains are finite and fully covered, so the verdict is exact.",
        note="Trusted: the constructive reference; metric (M=1) codes are only checked for totality; values that do not fit u16 or are <= 0 ft may be reported unavailable."),
    "C14": dict(engine=E1, design="4/C14",
        technique="complete enumeration of all 2^24 addresses with a hash-set injectivity oracle and an independent block table",
        text="Complete enumeration of all 2^24 addresses through the real tail() (and aircraft_information); registrations are collected in a hash map for injectivity and matched against the address-block table that the harness reads from patterns.json itself. thorough adds all other u32 arguments for totality.",
        note="Trusted: patterns.json as the block table (the property names it); country names are not compared (categories may override them); blocks without a prefix pattern are counted only."),
    "C06": dict(engine=E1, design="4/C06",
        technique="bounded exhaustive exploration of report histories (gap x parity x phase) per trajectory through the real stateful decoder; two-aircraft runs in all merge orders",
        text="Bounded history exploration of the real cpr::decode_positions (which drives decode_position exactly as jet1090 / decode1090 do): for each of 348 (thorough 468) trajectories (12 start points at the equator, just below NL transitions, the 87-degree edge, near a pole, latitude zone edges, the antimeridian, southern mirrors; 3-8 headings; 0/30/120/140/250/700 kt; airborne, surface and landing-after-k phase plans; receiver reference absent or 0/20/40 NM away) every history of (gap, parity) steps of length <= 3 (thorough 4) over 9 (13) gaps straddling every window constant (-0.3 s swapped stamp, -30 s (thorough also -5 / -200 s) swapped delivery after losses, 0 duplicate, 0.4, 9.9/10/10.1, 30, 179.9/180/180.1, 600, 86400 s) plus the gaps after which the aircraft is exactly one airborne or surface CPR zone away (+-2 s), and length 4 (5) over the core gaps: 4.1e6 histories quick, 4.8e8 thorough. Each report is encoded from the trajectory position at its own time by a DO-260B encoder; every attached position must be within 25 m of that position. The same position messages are also carried by DF18, and by DF17 / DF18 alternating under one address, on a sub-catalogue. Two-aircraft runs: trajectory pairs x 128 sequence pairs x all 20 merge orders, solo and interleaved outputs must be identical.",
        note="Trusted: the float DO-260B encoder (reports whose encoded latitude is within 1e-9 degree of an NL transition are fed but not judged); surface reports are only generated within 40 NM of a configured receiver reference and equatorward of 88.5 degrees (beyond that the surface format itself is ambiguous); decoded messages are built from decoder-produced templates with the CPR fields set (conformance with freshly decoded frames is checked at start-up)."),
    "C07": dict(engine=E1, design="4/C07",
        technique="exhaustive enumeration of the decoder's accepted message shapes over the shared frame space; strict JSON reader with duplicate-key detection and a finiteness-probing serde serializer",
        text="Every message accepted in the frame space of C01 (dispatch, headers, extended-squitter windows for every type code / subtype / control field, complete field sweeps, Comm-B frames: 7.0e6 accepted messages quick, all (DF, type code, member-set) shapes counted) is serialised with serde_json::to_string; the text must be one line, must be accepted by a hand-written strict RFC 8259 reader that rejects duplicate keys at every nesting level, a serde Serializer written for the purpose must meet no non-finite float, df must equal the 5 leading bits and icao24 the AA field or the CRC overlay recomputed bit-serially, and the TimedMessage form must keep the frame as lowercase hex, contain every member of the message, and re-decode to the same JSON.",
        note="Trusted: the strict reader and the finiteness probe (both self-tested at start-up on known-bad documents); metadata of timed records is left empty (it is produced by the receivers, not by the decoder)."),
    "C08": dict(engine=E1, design="4/C08",
        technique="exhaustive component sweep (shared frame space incl. joint sign/magnitude sweeps) with physical-range predicates on every reported number",
        text="The frame space of C01 including the direct register calls and the joint sweeps that matter for ranges (all velocity sign/magnitude pairs incl. both extremes, all 2048 heading codes of subtypes 3/4, all 128x128x2 surface movement/track codes, all BDS 5,0 track / roll x rate / gs x TAS codes, all BDS 6,0 heading / IAS x Mach / rate x rate codes, BDS 4,4 wind speed x direction, temperature x humidity, BDS 4,5, BDS 6,2 headings, every call-sign character at every position, every identity code). Each accepted frame / register is converted to JSON and every number is checked for finiteness (also with the finiteness-probing serializer) and, by member name, against the property's list: angles in [0,360), |roll| <= 90, CPR counts < 2^17, vertical rates multiples of 64 (ADS-B, <= 32640) or 32 (BDS 6,0), speeds >= 0, Mach in (0,1], squawk four octal digits, humidity in [0,100], temperatures in [-80,60], call-sign characters in the 6-bit set. The evidence lists the observed min/max of every numeric member, and the check fails to claim exhaustiveness if a named quantity was never observed.",
        note="Trusted: quantities are recognised by their JSON member name; members the property does not name are checked for finiteness only."),
    "C09": dict(engine=E1, design="4/C09",
        technique="deviation-bounded exhaustive exploration of read chunkings of the real Beast framer fed from an in-memory chunk queue",
        text="Deviation-bounded exhaustive exploration of the real beast::next_msg, the deviation being a cut of the byte stream between two reads: for every stream F1.F2.tail with F1 over all placements of <= 2 (thorough 3) escaped 0x1A bytes in Mode-AC / short / long frames, runs of 4-6 and all-0x1A bodies, three fillers, and F2 over 12 patterns, the check executes 0 cuts, every single cut, every pair of cuts and the 1-byte dribble; every triple of cuts on the 144-stream sub-alphabet; every single cut of 20k three-frame streams; and all 1024 alignments of 1024-byte reads over a long concatenation (1.5e7 executions quick, 1.8e8 thorough). Chunks are served by the cfg-guarded DataSource::Chunks hook, so boundaries are exact. Oracle: the frames handed on are a prefix of the frames the stream was built from, un-escaped and unmodified, every frame starting before the last 23 bytes is present, and the result equals the one-piece delivery.",
        note="Trusted: the hook (14 added lines: pops the next chunk into the same 1024-byte read buffer); streams are well formed as the property requires; more than 3 cuts or more than 3 isolated 0x1A per frame are outside the bound."),
    "C10": dict(engine=E2, design="4/C10",
        technique="exhaustive enumeration of arrival histories through the real deduplication task (real tokio channels, polled step by step), property invariants on every execution",
        text="Bounded exhaustive history exploration of the real dedup::deduplicate_messages: every arrival history up to length 4-6 (thorough 5-7) over (2-3 decodable frames + an undecodable one) x 2 receivers x a timestamp grid straddling every window edge x window lengths {0,250,450,500} ms, in arbitrary and in non-decreasing time order (3.5 M executions quick, 2.0e8 thorough). Each history is pushed one arrival at a time into real tokio mpsc channels, the real task is polled on the calling thread and its output drained after every arrival, so the step at which each record leaves is observed. Judged per execution: no reception invented/duplicated/attached to another frame, arrival order inside a record, timestamp = first arrival, nothing emitted before its window closed, every decodable reception whose window certainly closed is out, and for non-decreasing stamps same-frame records >= window apart and output in order of first arrival. A list-based reference model is compared as a second opinion (agreement counted, never a verdict). Further plans use realistic Unix-time stamps (1.7e9 s), receptions that already carry two metadata entries, three receivers and a window that never closes. The second anchor, the decode1090 binary (which embeds its own copy of the loop and flushes at end of input), is explored as a black box: 38k (thorough 0.6 M) histories are written into one input file per window, each with its own frames and time base, the real binary is run and every output line is attributed back to its history; every decodable reception must come out exactly once, in arrival order, under the right frame and first-arrival timestamp.",
        note="Trusted: timestamps on a grid exact in binary floating point (self-checked); groups still open at end of input need not be emitted; decode_time and wall-clock fields are ignored; channel capacities are pre-sized so the task never blocks on output."),
    "C11": dict(engine=E2, design="4/C11",
        technique="complete enumeration of record kinds x addresses x filter shapes through the real Filters::is_in against the record's own JSON",
        text="Complete enumeration of a finite case space on the real code: every address-carrying downlink format (DF0/4/5/11 with and without interrogator id/16/17 and DF18 with five control fields x six message kinds/20/21 with and without a register) x 8 (thorough 32) addresses x decoded/undecoded x 11 df-filter shapes (incl. other spellings of the number, unsorted lists) x 25 aircraft-filter shapes (absent, empty, shown, other, the transmitted parity field, neighbours of the shown address, lists of three addresses in all six orders with and without the shown one, lists of four). Filters::is_in is compared with membership of the df and icao24 members of serde_json::to_value(&record). The filter is a pure function of (DF arm, address field, two lists), so covering every arm with every list shape decides it.",
        note="Trusted: frames come from the harness's own bit-level builder (checked: the decoder must accept each); list order/duplicates are not part of the property."),
    "C12": dict(engine=E2, design="4/C12",
        technique="exhaustive enumeration of record histories through the real update_snapshot on the real application state; reference table and projection (solo replay) equality",
        text="Bounded exhaustive history exploration on the real code: all histories up to depth 3 (thorough 4) over 3 aircraft x 33 message kinds (every DF arm and every ADS-B / Comm-B arm of update_snapshot, DF19/DF24 without address), depth 4 (thorough 5) over 12 core kinds and an equal-timestamp variant, with aircraft symmetry reduction; each history is replayed on a fresh Jet1090 through the real snapshot::update_snapshot (tokio mutex, real decoder output). Oracles per history: key set = addresses shown in the records' JSON, count / firstseen / lastseen per aircraft, every held value occurs in one of that aircraft's own records (values are unique per aircraft and step), and the entry equals the entry obtained by replaying that aircraft's records alone.",
        note="Trusted: aircraft interchangeability (the table code never branches on the address value); positions on BDS 0,5/0,6 records are attached by the harness as decode_position does; store_history and expiry are outside this check."),
    "C15": dict(engine=E1, design="4/C15",
        technique="exhaustive enumeration of packet shapes and of every code of every field, packets built and XXTEA-encrypted by an independent implementation, through the real Flarm::from_record",
        text="Bounded exhaustive enumeration on the real Flarm::from_record. Totality: lengths 0..=40 x all 256 magic bytes x 3 fills x 7 timestamps x 10 references (NaN, infinities, 1e300, f64::MAX, values around the i32 saturation point), plus well-formed packets against the same references (2.2 M calls): no panic, every decoded number finite, track in [0,360). Inversion: an independent key schedule + XXTEA encryptor + packet builder produces packets for all 16 types x flags x address kinds, all 8192 altitudes, all 4096 GPS codes, six 65536-address windows, 8189 timestamps on both sides of every change of time bit 23 and bit 6, and every one of the 2^19 latitude and 2^20 longitude codes inside the window of 3 (thorough 12) references; the decoded address, type, flags, altitude must be equal and the position within one quantisation step. Track range: 32^4 boundary tuples of (ns0,ew0,ns1,ew1) (thorough: all 65536 (ns0,ew0) x 1024 boundary (ns1,ew1) and the converse, 1.3e8 packets).",
        note="Trusted: the reverse-engineered key tables and scrambling constants are necessarily shared with the code; two trailing CRC bytes are required by the decoder but not interpreted; vertical speed / ground speed values are only checked for finiteness (not in the property's inversion list); positions across the antimeridian are outside the format's window arithmetic."),
    "C16": dict(engine=E2, design="4/C16",
        technique="exhaustive enumeration of a specification grammar and of all short strings through the real parsers; serial equality across forms and processes",
        text="Bounded exhaustive enumeration through the real Source::from_str / Position::from_str / Source::serial: the product scheme x host x port x path x separator x reference (49k strings quick, 115k thorough), every string up to length 4 (thorough 5) over a 12-symbol alphabet of URL/regex metacharacters, every well-formed endpoint (4 schemes x 6 hosts x 6 ports x paths x 9 references) compared with the expected endpoint, reference position and with the serial of each documented TOML table form, every airport ICAO (thorough: and IATA) code of airports.json, and the digest of all serials recomputed in two further processes. Totality is judged by catch_unwind with the panic site recorded.",
        note="Trusted: 'well-formed' means an explicit scheme with host and port (or the documented ':port' and 'rtlsdr:' forms); scheme-less 'host:port' is answered with Err by the parser and is only enumerated for totality; websocket table URLs are written with explicit port and path."),
    "C17": dict(engine=E2, design="4/C17",
        technique="explicit-state breadth-first search of the UI state graph through the real update() handler, invariants on every transition",
        text="Explicit-state model checking on the implementation: BFS over (rows, selected, quit, search mode, sort key, sort order, query length class, width) for 0..4 (thorough 0..6) rows from main()'s initial state and from every consistent non-initial state, applying 37 events (all documented keys, undocumented keys, ticks, error) through the real update() on a real tokio MutexGuard<Jet1090> inside catch_unwind; every transition is judged (no panic, selection in range, each flag changes only on its documented key outside/inside search mode). The reachable graph is finite and explored completely; an un-abstracted DFS of all event sequences to depth 3 (thorough 5) cross-checks the query abstraction. A second phase runs the handler together with the real renderer (table::build_table on a ratatui TestBackend, as the TUI task does: update, then draw) over real state vectors of 0/1/3/4 aircraft, BFS to depth 4 (thorough 7) over 25 events with the search query kept verbatim (<= 3 characters): rendering recomputes the rows from the query, so the table shrinks and grows while keys are pressed; no panic in update or draw, rows = aircraft matching the query, selection inside the rows after every draw, same flag rules.",
        note="Trusted: the query-length abstraction (update() never branches on the query content; cross-checked); the table size is fixed during a key sequence, as the property states; the renderer is driven on a ratatui TestBackend (no terminal); aircraft rows are given a last-seen time in the future so that they do not age out during a run."),
    "C18": dict(engine=E1, design="4/C18",
        technique="exhaustive enumeration of every nanosecond of the critical intervals and every Unix second, i128 oracle",
        text="Exhaustive bounded enumeration on the real functions: every nanosecond of [0, 18.001 s), every nanosecond around each day boundary, the whole week on a grid, every Unix second 1980..2100 (thorough) against an i128 oracle. The function is piecewise linear with breakpoints only at the enumerated boundaries, so dense coverage of each boundary plus a grid decides it.",
        note="Trusted: leap-second constant 18 s as named by the property; the week (6e14 ns) is not enumerated completely, the boundary windows are."),
}

PENDING = {
}


def hook_commits():
    try:
        out = subprocess.run(["git", "-C", "/repo", "log", "--format=%h %s"], capture_output=True, text=True).stdout
        return [l.split()[0] for l in out.splitlines() if " hook:" in " " + l or l.split(" ", 1)[1].startswith("verif hook")]
    except Exception:
        return []


def main():
    props = [json.loads(l) for l in open(os.path.join(VERIF, "properties.jsonl"))]
    checks, na = [], []
    for p in props:
        pid = p["id"]
        c = CLAIMED.get(pid)
        if not c:
            na.append({"property_id": pid, "reason": PENDING.get(pid, "check not built yet in this round; design in DESIGN.md section 4/" + pid + " (model checking applies; no verdict is claimed until the engine exists)")})
            continue
        checks.append({
            "property_id": pid,
            "quick_cmd": f"bin/check {pid} --tier quick",
            "thorough_cmd": f"bin/check {pid} --tier thorough",
            "evidence_file": f"/verif/evidence/{pid}.json",
            "replay_cmd_template": f"bin/check {pid} --replay {{path}}",
            "engine": c["engine"],
            "level_claimed": {"category": "model_checking", "text": c["text"], "design_ref": "DESIGN.md " + c["design"]},
            "level_note": c["note"],
            "technique": c["technique"],
        })
    m = {
        "version": 1,
        "setup_cmd": "bin/setup",
        "hooks": {
            "guard": "--cfg xoolive_rs1090_verif",
            "enable": "RUSTFLAGS='--cfg xoolive_rs1090_verif' (set by bin/check for both engines); jet1090 additionally gets XOOLIVE_RS1090_VERIF_DRIVER=/verif/engines/jetdrv/driver.rs at build time and JET1090_VERIF=<id> at run time",
            "baseline_off_cmd": "cd /repo && (cargo nextest run --workspace --no-fail-fast --offline || cargo test --workspace --no-fail-fast --offline)",
            "source_commits": hook_commits(),
            "add_only": True,
        },
        "engines": [
            {"name": E1, "path": "engines/sweep", "serves_properties": sorted(k for k, v in CLAIMED.items() if v["engine"] == E1),
             "kind_free_text": "Rust binary linked against /repo/crates/rs1090 by path; exhaustive component sweeps, cell enumeration and bounded history exploration of the real library code against reference models written from the standards"},
            {"name": E2, "path": "engines/jetdrv", "serves_properties": sorted(k for k, v in CLAIMED.items() if v["engine"] == E2),
             "kind_free_text": "explorer source compiled into the real jet1090 binary through a cfg-guarded include; BFS/DFS over the real event handler, dedup task, filters, snapshot table and source parser"},
        ],
        "checks": checks,
        "not_applicable": na,
        "notes": "All checks run the implementation itself inside an exhaustive bounded enumeration (no sampling decides a verdict). Exit 2 = machinery failure (build error, cap), never a verdict. known_findings.txt lists genuine defects that are recorded rather than repaired.",
    }
    open(os.path.join(VERIF, "MANIFEST.json"), "w").write(json.dumps(m, indent=1) + "\n")
    print(f"claimed={len(checks)} not_applicable={len(na)}")


if __name__ == "__main__":
    main()
